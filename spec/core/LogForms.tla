------------------------------ MODULE LogForms ------------------------------
(***************************************************************************)
(* Meaning of the three log-polynomial forms of src/log_poly.rs as         *)
(* functions of v > 0, over the arithmetic signature extended with ln and  *)
(* the exponential tail R (supplied as operators: exact enclosures over    *)
(* BigRat in the trace specs).                                             *)
(*                                                                         *)
(*   Log(p)(v)                 = p(ln v)                                   *)
(*   IntOfLog(k, q)(v)         = k + v q(ln v)                             *)
(*   IntOfLogPoly4(k, c, u)(v) = k + v ( sum_{j=1..4} c_j x^j + u x^5 R(x) ),  x = -ln v *)
(*                                                                         *)
(* PolyAlgebra!LogIndef / QuarticIndef give the antiderivative forms and   *)
(* MC_PolyAlgebra checks that they satisfy q + q' = p resp. G - G' = p(-x).*)
(***************************************************************************)
EXTENDS Integers, Sequences

CONSTANTS Zero, One, Add(_, _), Sub(_, _), Mul(_, _), Div(_, _), Neg(_), Abs(_), Leq(_, _), FromInt(_),
          Ln(_),        \* natural logarithm
          R5(_)         \* R(x) = sum_{m>=0} x^m/(m+5)!

Fma(fa, fb, fc) == Add(Mul(fa, fb), fc)      \* exact arithmetic: fused = unfused
A == INSTANCE PolyAlgebra

LogVal(p, v) == A!Eval(p, Ln(v))
IntOfLogVal(k, q, v) == Add(k, Mul(v, A!Eval(q, Ln(v))))

\* the bracket of the quartic form at x, and its magnitude sum (R > 0 everywhere)
QuarticBracket(c, u, x) ==
    Add(A!Eval(<< Zero, c[1], c[2], c[3], c[4] >>, x), Mul(Mul(u, A!Pow(x, 5)), R5(x)))
QuarticBracketMag(c, u, x) ==
    Add(A!AbsEval(<< Zero, c[1], c[2], c[3], c[4] >>, x), Mul(Mul(Abs(u), A!Pow(Abs(x), 5)), R5(x)))
QuarticVal(k, c, u, v) == Add(k, Mul(v, QuarticBracket(c, u, Neg(Ln(v)))))
QuarticMag(k, c, u, v) == Add(Abs(k), Mul(v, QuarticBracketMag(c, u, Neg(Ln(v)))))

\* An antiderivative of p(ln t), from the exact recurrence: G(t) = t q(ln t)
Antideriv(p, t) == Mul(t, A!Eval(A!LogIndef(p), Ln(t)))

\* Magnitude vector of the recurrence q_i = p_i - (i+1) q_{i+1}: M_n = |p_n|, M_i = |p_i| + (i+1) M_{i+1}.
\* |q_i| <= M_i, and the rounding error of the floating-point recurrence is a small multiple of 2^-53 M_i.
LogIndefMag(p) ==
    LET ap == [i \in 1..Len(p) |-> Abs(p[i])]
        neg == [i \in 1..Len(p) |-> IF (Len(p) - i) % 2 = 0 THEN ap[i] ELSE Neg(ap[i])]
    IN  A!AbsSeq(A!LogIndef(neg))
\* same for the quartic construction: a = -p0, b = (a+p1)/2, c = (b-p2)/3, d = (c+p3)/4, u = 24(d-p4)
QuarticIndefMag(p) ==
    LET a == Abs(p[1])
        b == Div(Add(a, Abs(p[2])), FromInt(2))
        c == Div(Add(b, Abs(p[3])), FromInt(3))
        d == Div(Add(c, Abs(p[4])), FromInt(4))
        u == Mul(Add(d, Abs(p[5])), FromInt(24))
    IN  << a, b, c, d, u >>
=============================================================================
