------------------------------- MODULE Linear -------------------------------
(***************************************************************************)
(* src/linear.rs: `linear(knots)` folds the knots left to right, forcing   *)
(* abscissae to be non-decreasing, one segment per consecutive pair.       *)
(*   prev   the (abscissa-forced) previous knot << x, y >>                 *)
(*   i      next knot to consume (1-based; knot 1 is consumed by the start)*)
(*   out    segments so far as << end, << c0, c1 >> >>                     *)
(* Arithmetic over the signature; the width test uses Eps (f64::EPSILON in *)
(* the code; a grid constant in the exhaustive model).                     *)
(***************************************************************************)
EXTENDS Integers, Sequences

CONSTANTS Zero, One, Add(_, _), Sub(_, _), Mul(_, _), Div(_, _), Neg(_), Abs(_), Leq(_, _), FromInt(_),
          Eps

VARIABLES knots, i, prev, out

vars == << knots, i, prev, out >>

Lt(a, b) == Leq(a, b) /\ a # b
Max(a, b) == IF Lt(a, b) THEN b ELSE a       \* f64::max on non-NaN operands
NoNaN(a) == FALSE
P == INSTANCE Piecewise WITH Lt <- Lt, Le <- Leq, IsNaN <- NoNaN

\* assert!(knots.len() >= 2)
Start(ks) ==
    /\ Len(ks) >= 2
    /\ knots' = ks /\ i' = 2 /\ prev' = ks[1] /\ out' = << >>

\* segment(knot0, knot1): slope 0 if narrower than Eps, else the secant slope; the line through knot0
Seg(k0, k1) ==
    LET dx == Sub(k1[1], k0[1])
        pv == IF Lt(dx, Eps) THEN Zero ELSE Div(Sub(k1[2], k0[2]), dx)
    IN  << k1[1], << Sub(k0[2], Mul(pv, k0[1])), pv >> >>

Step ==
    /\ i <= Len(knots)
    /\ LET k == << Max(prev[1], knots[i][1]), knots[i][2] >> IN
       /\ out' = Append(out, Seg(prev, k))
       /\ prev' = k
    /\ i' = i + 1
    /\ UNCHANGED knots

Done == i = Len(knots) + 1

-----------------------------------------------------------------------------
RECURSIVE RunMax(_, _)
RunMax(ks, n) == IF n = 1 THEN ks[1][1] ELSE Max(RunMax(ks, n - 1), ks[n][1])

EvalSeg(s, x) == Add(s[2][1], Mul(s[2][2], x))
Ends == [j \in 1..Len(out) |-> out[j][1]]

\* C06, structural part
OnePerPair   == Done => Len(out) = Len(knots) - 1
EndsRunMax   == Done => \A j \in 1..Len(out) : out[j][1] = RunMax(knots, j + 1)
NonDecr      == Done => P!WellFormed(Ends)
\* every segment passes through its abscissa-forced left knot; through its right knot when at least
\* Eps wide; constant at the left ordinate otherwise
ThroughKnots ==
    Done => \A j \in 1..Len(out) :
        LET x0 == RunMax(knots, j)  y0 == knots[j][2]  x1 == RunMax(knots, j + 1)  y1 == knots[j + 1][2] IN
        /\ EvalSeg(out[j], x0) = y0
        /\ IF Lt(Sub(x1, x0), Eps) THEN out[j][2] = << y0, Zero >> ELSE EvalSeg(out[j], x1) = y1
\* ... hence for strictly increasing abscissae with gaps >= Eps: the interpolant between knots, the
\* ordinate at every knot, extrapolation of the end segments outside
Regular == \A j \in 1..(Len(knots) - 1) : Leq(Eps, Sub(knots[j + 1][1], knots[j][1]))
InterpAt(t) ==
    (Done /\ Regular) =>
        LET s == P!Select(Ends, t)
            x0 == knots[s][1]  y0 == knots[s][2]  x1 == knots[s + 1][1]  y1 == knots[s + 1][2]
        IN  EvalSeg(out[s], t) = Add(y0, Mul(Div(Sub(y1, y0), Sub(x1, x0)), Sub(t, x0)))
AtKnots ==
    (Done /\ Regular) => \A j \in 1..Len(knots) :
        EvalSeg(out[P!Select(Ends, knots[j][1])], knots[j][1]) = knots[j][2]
=============================================================================
