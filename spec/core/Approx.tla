------------------------------- MODULE Approx -------------------------------
(***************************************************************************)
(* abs_diff_eq / relative_eq lifted from scalars to every type (C17).      *)
(* A value is flattened to (shape, numbers): shape is the sequence of      *)
(* per-piece number counts (one entry for a single form; one per segment   *)
(* for a piecewise function, the breakpoint counted with its piece), so    *)
(* that "different numbers of pieces" is a shape difference.               *)
(* The scalar relations are parameters: the library's scalar rule on f64   *)
(* (approx crate) in the trace spec, its integer analogue in the model.    *)
(***************************************************************************)
EXTENDS Integers, Sequences

CONSTANTS AbsS(_, _, _),        \* scalar |a - b| <= eps
          RelS(_, _, _, _)      \* scalar relative_eq(a, b, eps, max_relative)

AbsEq(sa, a, sb, b, eps) ==
    /\ sa = sb /\ Len(a) = Len(b)
    /\ \A i \in 1..Len(a) : AbsS(a[i], b[i], eps)

RelEq(sa, a, sb, b, eps, rel) ==
    /\ sa = sb /\ Len(a) = Len(b)
    /\ \A i \in 1..Len(a) : RelS(a[i], b[i], eps, rel)
=============================================================================
