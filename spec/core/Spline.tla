------------------------------- MODULE Spline -------------------------------
(***************************************************************************)
(* src/spline.rs: Kruger's constrained cubic spline, transcribed formula   *)
(* by formula over the arithmetic signature ({-7a-}, {-7b-}, {-7c-} and    *)
(* the monomial coefficients of `segment`).  A knot is << x, y >>.         *)
(***************************************************************************)
EXTENDS Integers, Sequences

CONSTANTS Zero, One, Add(_, _), Sub(_, _), Mul(_, _), Div(_, _), Neg(_), Abs(_), Leq(_, _), FromInt(_)

Fma(fa, fb, fc) == Add(Mul(fa, fb), fc)      \* exact arithmetic: fused = unfused
A == INSTANCE PolyAlgebra
Lt(a, b) == Leq(a, b) /\ a # b
Frac(n, d) == Div(FromInt(n), FromInt(d))

Secant(k0, k1) == Div(Sub(k1[2], k0[2]), Sub(k1[1], k0[1]))

\* f_dx: the first derivative prescribed at an interior knot {-7a-}
FDx(k0, k1, k2) ==
    LET s01 == Secant(k0, k1)  s12 == Secant(k1, k2) IN
    IF Leq(Mul(s01, s12), Zero) THEN Zero                       \* slopes change sign, or one is flat
    ELSE Div(FromInt(2), Add(Div(One, s01), Div(One, s12)))     \* harmonic mean

\* first derivatives at all knots: << f(x_1), ..., f(x_n) >>
Slopes(ks) ==
    LET n == Len(ks)
        mid == [j \in 2..(n - 1) |-> FDx(ks[j - 1], ks[j], ks[j + 1])]
        f1 == Sub(Mul(Frac(3, 2), Secant(ks[1], ks[2])), Mul(Frac(1, 2), mid[2]))               \* {-7b-}
        fn == Sub(Mul(Frac(3, 2), Secant(ks[n - 1], ks[n])), Mul(Frac(1, 2), mid[n - 1]))       \* {-7c-}
    IN  [j \in 1..n |-> IF j = 1 THEN f1 ELSE IF j = n THEN fn ELSE mid[j]]

\* segment(f0, knot0, f1, knot1): << end, << a, b, c, d >> >>
Segment(f0, k0, f1, k1) ==
    LET x0 == k0[1]  y0 == k0[2]  x1 == k1[1]  y1 == k1[2]
        dx == Sub(x1, x0)
        slope == Div(Sub(y1, y0), dx)
        x0x0 == Mul(x0, x0)
        f0dd == Div(Mul(FromInt(2), Sub(Mul(FromInt(3), slope), Add(f1, Mul(FromInt(2), f0)))), dx)
        f1dd == Div(Mul(FromInt(2), Sub(Add(Mul(FromInt(2), f1), f0), Mul(FromInt(3), slope))), dx)
        d == Div(Mul(Frac(1, 6), Sub(f1dd, f0dd)), dx)
        c == Div(Mul(Frac(1, 2), Sub(Mul(x1, f0dd), Mul(x0, f1dd))), dx)
        b == Sub(Sub(slope, Mul(c, Add(x1, x0))), Mul(d, Add(Add(Mul(x1, x1), Mul(x1, x0)), x0x0)))
        a == Sub(Sub(Sub(y0, Mul(b, x0)), Mul(c, x0x0)), Mul(Mul(d, x0x0), x0))
    IN  << x1, << a, b, c, d >> >>

\* constrained_spline(knots), Len(knots) >= 3 (assert!), abscissae strictly increasing (precondition)
Spline(ks) ==
    LET f == Slopes(ks) IN
    [j \in 1..(Len(ks) - 1) |-> Segment(f[j], ks[j], f[j + 1], ks[j + 1])]

Admissible(ks) == Len(ks) >= 3 /\ \A j \in 1..(Len(ks) - 1) : Lt(ks[j][1], ks[j + 1][1])

-----------------------------------------------------------------------------
\* C04, exact form: one cubic per interval, right abscissa verbatim, interpolation, prescribed slopes
DCoef(p) == A!Deriv(p)
C04(ks, sp) ==
    LET f == Slopes(ks) IN
    /\ Len(sp) = Len(ks) - 1
    /\ \A j \in 1..Len(sp) :
          /\ sp[j][1] = ks[j + 1][1]
          /\ A!Eval(sp[j][2], ks[j][1]) = ks[j][2]
          /\ A!Eval(sp[j][2], ks[j + 1][1]) = ks[j + 1][2]
          /\ A!Eval(DCoef(sp[j][2]), ks[j][1]) = f[j]
          /\ A!Eval(DCoef(sp[j][2]), ks[j + 1][1]) = f[j + 1]

\* minimum / maximum over [x0, x1] of the quadratic q (coefficients << q0, q1, q2 >>), exactly
QAt(q, x) == A!Eval(q, x)
QExtremes(q, x0, x1) ==     \* the set of candidate extreme values
    LET ends == { QAt(q, x0), QAt(q, x1) } IN
    IF q[3] = Zero THEN ends
    ELSE LET xv == Div(Neg(q[2]), Mul(FromInt(2), q[3])) IN
         IF Lt(x0, xv) /\ Lt(xv, x1) THEN ends \cup { QAt(q, xv) } ELSE ends

\* Bernstein (Bezier) control values of the cubic on [x0, x1]: the curve lies in their convex hull
Bernstein(p, x0, x1) ==
    LET h3 == Div(Sub(x1, x0), FromInt(3))  dp == DCoef(p) IN
    << A!Eval(p, x0), Add(A!Eval(p, x0), Mul(A!Eval(dp, x0), h3)),
       Sub(A!Eval(p, x1), Mul(A!Eval(dp, x1), h3)), A!Eval(p, x1) >>

\* C05, exact form
MonotoneOn(p, k0, k1) ==
    LET q == DCoef(p)  ex == QExtremes(q, k0[1], k1[1]) IN
    IF Leq(k0[2], k1[2]) THEN \A v \in ex : Leq(Zero, v) ELSE \A v \in ex : Leq(v, Zero)
NoOvershoot(p, k0, k1) ==
    LET b == Bernstein(p, k0[1], k1[1])
        lo == IF Leq(k0[2], k1[2]) THEN k0[2] ELSE k1[2]
        hi == IF Leq(k0[2], k1[2]) THEN k1[2] ELSE k0[2]
    IN  \A m \in 1..4 : Leq(lo, b[m]) /\ Leq(b[m], hi)
C05(ks, sp) ==
    /\ \A j \in 1..Len(sp) : MonotoneOn(sp[j][2], ks[j], ks[j + 1]) /\ NoOvershoot(sp[j][2], ks[j], ks[j + 1])
    \* flat at interior extrema and plateaux
    /\ \A j \in 2..(Len(ks) - 1) :
          Leq(Mul(Secant(ks[j - 1], ks[j]), Secant(ks[j], ks[j + 1])), Zero) => A!Eval(DCoef(sp[j][2]), ks[j][1]) = Zero
    \* collinear knots reproduce the straight line
    /\ (\A j \in 2..(Len(ks) - 1) : Secant(ks[j - 1], ks[j]) = Secant(ks[j], ks[j + 1])) =>
          \A j \in 1..Len(sp) : sp[j][2][3] = Zero /\ sp[j][2][4] = Zero /\ sp[j][2][2] = Secant(ks[1], ks[2])
=============================================================================
