------------------------------ MODULE Outcomes ------------------------------
(***************************************************************************)
(* Which calls of the public API may panic (C16).  Every operation returns *)
(* on well-formed finite input; the only panics are the documented         *)
(* rejections.  n: number of knots resp. of segments of the (first)        *)
(* operand, m: segments of the second operand, nanEnd: some breakpoint of  *)
(* an operand is NaN.                                                      *)
(***************************************************************************)
EXTENDS Integers

DocumentedReject(op, n, m, nanEnd) ==
    \/ op = "linear" /\ n < 2                                            \* assert!(knots.len() >= 2)
    \/ op = "constrained_spline" /\ n < 3                                \* assert!(ks0n.len() >= 3)
    \/ op \in { "evaluate", "evaluate_v", "evaluator_new" } /\ n = 0     \* "no segments to pick from"
    \/ op \in { "add", "sub" } /\ (n = 0 \/ m = 0 \/ nanEnd)             \* len() - 1 underflow; partial_cmp().unwrap()

OutcomeOK(op, n, m, nanEnd, panicked) == panicked => DocumentedReject(op, n, m, nanEnd)
=============================================================================
