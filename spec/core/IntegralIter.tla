---------------------------- MODULE IntegralIter ----------------------------
(***************************************************************************)
(* Piecewise integration (C11): `Segment::integral_iter(_ref)` threads a   *)
(* running knot through the pieces; `Piecewise::integral(k0)` collects it, *)
(* `Piecewise::indefinite()` starts from the first piece's indefinite      *)
(* integral.  One action per piece, the closure's own variable `knot`.     *)
(*                                                                         *)
(* Pieces are polynomial coefficient vectors over the arithmetic signature *)
(* (the log-polynomial variant differs only in the per-piece antiderivative*)
(* and is handled in the trace spec with the same threading).              *)
(***************************************************************************)
EXTENDS Integers, Sequences

CONSTANTS Zero, One, Add(_, _), Sub(_, _), Mul(_, _), Div(_, _), Neg(_), Abs(_), Leq(_, _), FromInt(_)

VARIABLES ends, pieces,      \* the function being integrated (never change)
          mode,              \* "integral" (integral(k0)) or "indefinite" (indefinite())
          k0,                \* << x, y >> the knot handed to integral() (unused by indefinite())
          i,                 \* next piece to integrate (1-based)
          knot,              \* the running knot << x, y >>
          out                \* integrated pieces so far

vars == << ends, pieces, mode, k0, i, knot, out >>

Fma(fa, fb, fc) == Add(Mul(fa, fb), fc)      \* exact arithmetic: fused = unfused
A == INSTANCE PolyAlgebra
Lt(a, b) == Leq(a, b) /\ a # b
NoNaN(a) == FALSE
P == INSTANCE Piecewise WITH Lt <- Lt, Le <- Leq, IsNaN <- NoNaN

\* integral(k0): knot := k0
StartIntegral(e, ps, k) ==
    /\ ends' = e /\ pieces' = ps /\ mode' = "integral" /\ k0' = k /\ i' = 1 /\ knot' = k /\ out' = << >>

\* indefinite(): the first piece is its own indefinite integral, the rest is threaded from its end
StartIndefinite(e, ps) ==
    LET F1 == A!Indef(ps[1]) IN
    /\ ends' = e /\ pieces' = ps /\ mode' = "indefinite" /\ k0' = << Zero, Zero >> /\ i' = 2
    /\ knot' = << e[1], A!Eval(F1, e[1]) >> /\ out' = << F1 >>

\* one iteration of the map closure
Step ==
    /\ i <= Len(pieces)
    /\ LET F == A!IntegralThrough(pieces[i], knot[1], knot[2]) IN
       /\ out' = Append(out, F)
       /\ knot' = << ends[i], A!Eval(F, ends[i]) >>
    /\ i' = i + 1
    /\ UNCHANGED << ends, pieces, mode, k0 >>

Done == i = Len(pieces) + 1

-----------------------------------------------------------------------------
\* value of the piecewise function with pieces fs at t
EvalPW(fs, t) == A!Eval(fs[P!Select(ends, t)], t)

\* integral of the piecewise function `pieces` from a to t, defined independently of the threading:
\* the sum of the exact per-piece definite integrals over the half-open partition that Select induces
RECURSIVE SumPieces(_, _, _, _)
SumPieces(a, t, j, s) ==      \* pieces j..s, lower limit a for piece j
    IF j = s THEN A!DefInt(pieces[j], a, t)
    ELSE Add(A!DefInt(pieces[j], a, ends[j]), SumPieces(ends[j], t, j + 1, s))
IntegralFromTo(a, t) ==
    LET sa == P!Select(ends, a)  st == P!Select(ends, t) IN
    IF sa <= st THEN SumPieces(a, t, sa, st)
    ELSE Neg(SumPieces(t, a, st, sa))              \* t left of a: minus the integral from t to a

\* C11 at completion
SameShape   == Done => Len(out) = Len(pieces)
ThroughKnot == (Done /\ mode = "integral") => A!Eval(out[1], k0[1]) = k0[2]
ZeroConst   == (Done /\ mode = "indefinite") => out[1][1] = Zero
Continuous  == Done => \A j \in 1..(Len(out) - 1) : A!Eval(out[j], ends[j]) = A!Eval(out[j + 1], ends[j])
Antideriv   == Done => \A j \in 1..Len(out) : A!Deriv(out[j]) = pieces[j] \/ (Len(pieces[j]) = 0)
\* F(t) = k0.y + integral from k0.x to t, when k0.x lies in the first piece's domain
TrueIntegralAt(t) ==
    (Done /\ mode = "integral" /\ P!Select(ends, k0[1]) = 1) => EvalPW(out, t) = Add(k0[2], IntegralFromTo(k0[1], t))
\* indefinite(): same construction, so F(t) - F(s) is the integral from s to t
IndefiniteAt(s, t) ==
    (Done /\ mode = "indefinite") => Sub(EvalPW(out, t), EvalPW(out, s)) = IntegralFromTo(s, t)
=============================================================================
