---------------------------- MODULE PolyAlgebra -----------------------------
(***************************************************************************)
(* The algebra of src/poly.rs and the recurrences of src/log_poly.rs over  *)
(* an abstract arithmetic signature.  A polynomial is its coefficient      *)
(* sequence << c_0, ..., c_n >> (1-based in TLA+: c[i] multiplies          *)
(* x^(i-1)); the empty sequence is the zero polynomial (PolyN only).       *)
(*                                                                         *)
(* The signature is instantiated three times:                              *)
(*   IntNum  TLC integers           (exhaustive grids, spec/mc)            *)
(*   Rat     normalised pairs       (grids that need division, spec/mc)    *)
(*   BigRat  unbounded rationals    (judging real f64 results, spec/trace) *)
(* so the same definitions are model-checked on small grids and used as    *)
(* the exact oracle for executions of the real code.                       *)
(***************************************************************************)
EXTENDS Integers, Sequences

CONSTANTS Zero, One,
          Add(_, _), Sub(_, _), Mul(_, _), Div(_, _), Neg(_), Abs(_),
          Leq(_, _),          \* <=
          FromInt(_),
          Fma(_, _, _)        \* fused multiply-add a*b + c.  In the exact instances it is Add(Mul(a, b), c); in the
                              \* IEEE instance (bit patterns, every operation rounded) it is the single rounding
                              \* of the exact a*b + c, which makes Estrin/HornerFma below bit-exact models of
                              \* the nine evaluators and of PolyN::evaluate.

Lss(a, b) == Leq(a, b) /\ a # b
Two == FromInt(2)

RECURSIVE Pow(_, _)
Pow(x, k) == IF k = 0 THEN One ELSE Mul(x, Pow(x, k - 1))

-----------------------------------------------------------------------------
\* Evaluation.  Horner, deliberately a different scheme from the code's Estrin forms.
RECURSIVE HornerFrom(_, _, _)
HornerFrom(c, x, i) == IF i > Len(c) THEN Zero ELSE Add(c[i], Mul(x, HornerFrom(c, x, i + 1)))
Eval(c, x) == HornerFrom(c, x, 1)

\* The mathematical definition: sum of c_i x^i.
RECURSIVE PowerSumFrom(_, _, _)
PowerSumFrom(c, x, i) == IF i > Len(c) THEN Zero ELSE Add(Mul(c[i], Pow(x, i - 1)), PowerSumFrom(c, x, i + 1))
PowerSum(c, x) == PowerSumFrom(c, x, 1)

AbsSeq(c) == [i \in 1..Len(c) |-> Abs(c[i])]
\* sum of |c_i| |x|^i: the scale of the C01 bound
AbsEval(c, x) == Eval(AbsSeq(c), Abs(x))

\* PolyN::evaluate: iter().rev() fold with acc.mul_add(x, e)
RECURSIVE HornerFmaFrom(_, _, _)
HornerFmaFrom(c, x, i) == IF i = Len(c) THEN c[i] ELSE Fma(HornerFmaFrom(c, x, i + 1), x, c[i])
HornerFma(c, x) == IF Len(c) = 0 THEN Zero ELSE HornerFmaFrom(c, x, 1)

\* The nine hand-unrolled Estrin schemes, transcribed line by line from src/poly.rs
\* (variable names as in the source).  MC_PolyAlgebra checks each against PowerSum: a
\* wrong lane or power in the *scheme as written* would be a mathematical error.
Estrin(c, x) ==
    LET n  == Len(c) - 1
        x2 == Mul(x, x)
        x4 == Mul(x2, x2)
        x8 == Mul(x4, x4)
        C(i) == c[i + 1]
    IN  CASE n = 0 -> C(0)
          [] n = 1 -> Fma(C(1), x, C(0))
          [] n = 2 -> Fma(C(2), x2, Fma(C(1), x, C(0)))
          [] n = 3 -> LET t0 == Fma(C(1), x, C(0))  t1 == Fma(C(3), x, C(2)) IN Fma(t1, x2, t0)
          [] n = 4 -> LET t0 == Fma(C(1), x, C(0))  t1 == Fma(C(3), x, C(2))  t2 == C(4)
                          r == Fma(t1, x2, t0) IN Fma(t2, x4, r)
          [] n = 5 -> LET t0 == Fma(C(1), x, C(0))  t1 == Fma(C(3), x, C(2))  t2 == Fma(C(5), x, C(4))
                          r == Fma(t1, x2, t0) IN Fma(t2, x4, r)
          [] n = 6 -> LET t0 == Fma(C(1), x, C(0))  t1 == Fma(C(3), x, C(2))
                          t2 == Fma(C(6), x2, Fma(C(5), x, C(4))) IN Fma(t2, x4, Fma(t1, x2, t0))
          [] n = 7 -> LET t0 == Fma(C(1), x, C(0))  t1 == Fma(C(3), x, C(2))
                          t2 == Fma(C(5), x, C(4))  t3 == Fma(C(7), x, C(6))
                          left == Fma(t1, x2, t0)  right == Fma(t3, x2, t2) IN Fma(right, x4, left)
          [] n = 8 -> LET t0 == Fma(C(1), x, C(0))  t1 == Fma(C(3), x, C(2))
                          t2 == Fma(C(5), x, C(4))  t3 == Fma(C(7), x, C(6))
                          left == Fma(t1, x2, t0)  right2 == Fma(t3, x2, t2)
                          right4 == Fma(right2, x4, left) IN Fma(C(8), x8, right4)

-----------------------------------------------------------------------------
\* Coefficient-wise operations (C14).
ScaleP(c, s) == [i \in 1..Len(c) |-> Mul(c[i], s)]
NegP(c)      == [i \in 1..Len(c) |-> Neg(c[i])]
AddP(p, q)   == [i \in 1..Len(p) |-> Add(p[i], q[i])]           \* same length
SubP(p, q)   == [i \in 1..Len(p) |-> Sub(p[i], q[i])]
\* translate(t): add t to the additive constant only; the empty polynomial becomes << t >>
TranslateP(c, t) == IF Len(c) = 0 THEN << t >> ELSE [c EXCEPT ![1] = Add(c[1], t)]

\* Formal derivative (C08): degree 0 differentiates to the zero constant.
Deriv(c) == IF Len(c) <= 1 THEN << Zero >>
            ELSE [i \in 1..(Len(c) - 1) |-> Mul(FromInt(i), c[i + 1])]

\* Antiderivative with zero constant term (C07).
Indef(c) == [i \in 1..(Len(c) + 1) |-> IF i = 1 THEN Zero ELSE Div(c[i - 1], FromInt(i - 1))]
\* ... shifted vertically to pass through the knot (kx, ky)
IntegralThrough(c, kx, ky) ==
    LET F == Indef(c) IN TranslateP(F, Sub(ky, Eval(F, kx)))
\* exact definite integral of c over [a, b]
DefInt(c, a, b) == Sub(Eval(Indef(c), b), Eval(Indef(c), a))

-----------------------------------------------------------------------------
\* Log-polynomials (src/log_poly.rs).  f(t) = p(ln t).  With s = ln v:
\*   Log(p)            |->  Eval(p, s)
\*   IntOfLog(k, q)    |->  k + v * Eval(q, s)
\* d/dv [ v q(ln v) ] = q(ln v) + q'(ln v), so q is an antiderivative coefficient
\* vector for p exactly when  q + Deriv(q) = p  -- which the recurrence
\*   q_n = p_n,  q_i = p_i - (i+1) q_{i+1}
\* solves.  (LogIndef returns q; the additive constant k is separate.)
RECURSIVE LogIndefFrom(_, _)
LogIndefFrom(p, i) ==    \* << q_i, ..., q_n >>  (i is the 1-based position)
    IF i = Len(p) THEN << p[i] >>
    ELSE LET rest == LogIndefFrom(p, i + 1)
         IN  << Sub(p[i], Mul(FromInt(i), rest[1])) >> \o rest
LogIndef(p) == LogIndefFrom(p, 1)

\* padded q + q' (same length as q)
QPlusDeriv(q) == [i \in 1..Len(q) |-> IF i < Len(q) THEN Add(q[i], Mul(FromInt(i), q[i + 1])) ELSE q[i]]

\* The quartic special form IntOfLogPoly4 (k, << c1..c4 >>, u) with x = -ln v:
\*   k + v * ( c1 x + c2 x^2 + c3 x^3 + c4 x^4 + u x^5 R(x) ),
\*   x^5 R(x) = E(x) = e^x - sum_{j<5} x^j/j!,   E - E' = -x^4/24.
\* With G(x) the bracket, d/dv [v G(-ln v)] = G - G', and G - G' =
\*   -c1 + (c1 - 2 c2) x + (c2 - 3 c3) x^2 + (c3 - 4 c4) x^3 + (c4 - u/24) x^4,
\* which must equal p(-x) = p0 - p1 x + p2 x^2 - p3 x^3 + p4 x^4.
QuarticIndef(p) ==   \* << c1, c2, c3, c4, u >> as in `impl HasIntegral for Log<Poly4>`
    LET a == Neg(p[1])
        b == Div(Add(a, p[2]), FromInt(2))
        c == Div(Sub(b, p[3]), FromInt(3))
        d == Div(Add(c, p[4]), FromInt(4))
        u == Mul(Sub(d, p[5]), FromInt(24))
    IN  << a, b, c, d, u >>
\* coefficients of G - G' in x (degree 0..4)
QuarticDerivCoeffs(f) ==
    << Neg(f[1]),
       Sub(f[1], Mul(FromInt(2), f[2])),
       Sub(f[2], Mul(FromInt(3), f[3])),
       Sub(f[3], Mul(FromInt(4), f[4])),
       Sub(f[4], Div(f[5], FromInt(24))) >>
\* p(-x) as coefficients in x
Reflect(p) == [i \in 1..Len(p) |-> IF i % 2 = 1 THEN p[i] ELSE Neg(p[i])]
=============================================================================
