------------------------------ MODULE Library -------------------------------
(***************************************************************************)
(* The library as one session machine: a piecewise function object under   *)
(* the algebra of its public operations, with an evaluator handle that     *)
(* borrows it.  This is where the per-mechanism modules (Piecewise,        *)
(* Evaluator, EvalV, Merge, IntegralIter, PolyAlgebra) are composed, and   *)
(* where system-level invariants that no single mechanism owns are stated: *)
(*   - well-formedness is inductive over the API,                          *)
(*   - every operation except + and - leaves the breakpoints untouched,    *)
(*   - the pointwise meaning of each operation (C15),                      *)
(*   - degree bookkeeping (derivative lowers, integral raises),            *)
(*   - derivative after integral is the identity, breakpoints included,    *)
(*   - direct evaluation, the stateful evaluator and evaluate_v agree,     *)
(*   - the evaluator's borrow: the object cannot change while a handle     *)
(*     lives (Rust's lifetime 'a, here a guard on the mutating actions).   *)
(*                                                                         *)
(* State                                                                   *)
(*   ends, pieces   the object: breakpoints and one coefficient vector per *)
(*                  piece (all of the same length = degree + 1)            *)
(*   handle         "none" | "live": a PiecewiseEvaluator borrowing it     *)
(*   off, last      the handle's hidden cursor (Evaluator.tla)             *)
(*   vprev, vlast   evaluate_v's cursor during a batch (0 = no batch) and   *)
(*                  the batch's previous argument (<< >> before the first) *)
(*   lastop         history variable: the operation just performed, its    *)
(*                  arguments and observable result                        *)
(*   before         history variable: the object before the last operation *)
(* Pieces are coefficient vectors here; the lane-wise operations (scale,   *)
(* negate, translate, + and -) are the same for every shipped form once    *)
(* flattened (Log<P>, IntOfLog<P>, IntOfLogPoly4), which is how the trace  *)
(* specification applies them to sessions on log-polynomial objects too;   *)
(* what differs per form is evaluation and integration (PwForms.tla).      *)
(* The exact next-state functions (ScaleX, NegX, ...) are what the trace   *)
(* specification composes with the rounding relation to validate recorded  *)
(* sessions of the real code; the actions below use them as is.            *)
(***************************************************************************)
EXTENDS Integers, Sequences, Outcomes

CONSTANTS Zero, One, Add(_, _), Sub(_, _), Mul(_, _), Div(_, _), Neg(_), Abs(_), Leq(_, _), FromInt(_),
          MaxDeg          \* integration is offered up to this degree (7 in the library)

VARIABLES ends, pieces, handle, off, last, vprev, vlast, lastop, before

vars == << ends, pieces, handle, off, last, vprev, vlast, lastop, before >>

Fma(fa, fb, fc) == Add(Mul(fa, fb), fc)      \* exact arithmetic: fused = unfused
A == INSTANCE PolyAlgebra
LtN(a, b) == Leq(a, b) /\ a # b
NoNaN(a) == FALSE
P == INSTANCE Piecewise WITH Lt <- LtN, Le <- Leq, IsNaN <- NoNaN

Obj == [ends |-> ends, pieces |-> pieces]
Degree == Len(pieces[1]) - 1
MapPieces(f(_)) == [j \in 1..Len(pieces) |-> f(pieces[j])]

\* ---------------------------------------------------------------- exact next-state functions
ScaleX(ps, s)     == [j \in 1..Len(ps) |-> A!ScaleP(ps[j], s)]
NegX(ps)          == [j \in 1..Len(ps) |-> A!NegP(ps[j])]
TranslateX(ps, c) == [j \in 1..Len(ps) |-> A!TranslateP(ps[j], c)]
DeriveX(ps)       == [j \in 1..Len(ps) |-> A!Deriv(ps[j])]

\* Piecewise::integral: the running knot of IntegralIter, as a function
RECURSIVE IntegrateFrom(_, _, _, _, _)
IntegrateFrom(es, ps, j, knot, acc) ==
    IF j > Len(ps) THEN acc
    ELSE LET F == A!IntegralThrough(ps[j], knot[1], knot[2]) IN
         IntegrateFrom(es, ps, j + 1, << es[j], A!Eval(F, es[j]) >>, Append(acc, F))
IntegrateX(es, ps, kx, ky) == IntegrateFrom(es, ps, 1, << kx, ky >>, << >>)

\* &f + &g / &f - &g: Merge!Step iterated, combining the selected pieces
RECURSIVE MergeFrom(_, _, _, _, _, _, _, _)
MergeFrom(fe, fp, ge, gp, i, j, sub, acc) ==
    LET a == fe[i]  b == ge[j]  aLast == i >= Len(fe)  bLast == j >= Len(ge)
        comb == IF sub THEN A!SubP(fp[i], gp[j]) ELSE A!AddP(fp[i], gp[j])
        st == IF LtN(a, b) THEN (IF aLast THEN << i, j + 1, b >> ELSE << i + 1, j, a >>)
              ELSE IF LtN(b, a) THEN (IF bLast THEN << i + 1, j, a >> ELSE << i, j + 1, b >>)
              ELSE << (IF i + 1 < Len(fe) THEN i + 1 ELSE Len(fe)), (IF j + 1 < Len(ge) THEN j + 1 ELSE Len(ge)), a >>
        acc2 == [ends |-> Append(acc.ends, st[3]), pieces |-> Append(acc.pieces, comb)]
    IN  IF aLast /\ bLast THEN acc2 ELSE MergeFrom(fe, fp, ge, gp, st[1], st[2], sub, acc2)
MergeX(f, g, sub) == MergeFrom(f.ends, f.pieces, g.ends, g.pieces, 1, 1, sub, [ends |-> << >>, pieces |-> << >>])

EvalObj(o, x) == A!Eval(o.pieces[P!Select(o.ends, x)], x)

\* ---------------------------------------------------------------- actions
NoHandle == handle = "none" /\ vprev = 0      \* nothing borrows the object

Mutate(op, newPieces) ==
    /\ NoHandle
    /\ pieces' = newPieces
    /\ before' = Obj
    /\ lastop' = op
    /\ UNCHANGED << ends, handle, off, last, vprev, vlast >>

Scale(s)     == Mutate([op |-> "scale", s |-> s], ScaleX(pieces, s))
Negate       == Mutate([op |-> "neg"], NegX(pieces))
Translate(c) == Mutate([op |-> "translate", s |-> c], TranslateX(pieces, c))
Derive       == Mutate([op |-> "derive"], DeriveX(pieces))
Integrate(kx, ky) ==
    /\ Degree <= MaxDeg
    /\ Mutate([op |-> "integrate", kx |-> kx, ky |-> ky], IntegrateX(ends, pieces, kx, ky))

\* The fields of Piecewise and Segment are public: between two calls a caller may move a breakpoint or drop the last
\* piece IN PLACE (same object, same buffer).  Nothing the library computed earlier may survive such an edit: every
\* operation is a function of the object as it is now.  (Only edits that keep the object well-formed are modelled;
\* while a handle or a batch borrows the object Rust forbids them.)
EditEnd(i, e) ==
    /\ NoHandle
    /\ i \in 1..Len(ends)
    /\ (i > 1 => Leq(ends[i - 1], e)) /\ (i < Len(ends) => Leq(e, ends[i + 1]))
    /\ e # ends[i]
    /\ ends' = [ends EXCEPT ![i] = e]
    /\ before' = Obj
    /\ lastop' = [op |-> "editend", i |-> i, e |-> e]
    /\ UNCHANGED << pieces, handle, off, last, vprev, vlast >>
PopPiece ==
    /\ NoHandle
    /\ Len(ends) > 1
    /\ ends' = SubSeq(ends, 1, Len(ends) - 1) /\ pieces' = SubSeq(pieces, 1, Len(pieces) - 1)
    /\ before' = Obj
    /\ lastop' = [op |-> "pop"]
    /\ UNCHANGED << handle, off, last, vprev, vlast >>

\* f := f + g or f - g for another well-formed object g of the same degree
Combine(g, sub) ==
    /\ NoHandle
    /\ Len(g.pieces[1]) = Len(pieces[1])
    /\ LET r == MergeX(Obj, g, sub) IN ends' = r.ends /\ pieces' = r.pieces
    /\ before' = Obj
    /\ lastop' = [op |-> IF sub THEN "sub" ELSE "add", g |-> g]
    /\ UNCHANGED << handle, off, last, vprev, vlast >>

\* Piecewise::evaluate(x): no state change, observable value
Evaluate(x) ==
    /\ lastop' = [op |-> "eval", x |-> x, y |-> EvalObj(Obj, x), piece |-> P!Select(ends, x)]
    /\ UNCHANGED << ends, pieces, handle, off, last, vprev, vlast, before >>

\* PiecewiseEvaluator::new / evaluate / drop -- the cursor rules are Evaluator.tla's
RECURSIVE Scan(_, _)
Scan(x, k) == IF k >= Len(ends) - 1 THEN Len(ends) - 1
              ELSE IF LtN(x, ends[k + 1]) THEN k ELSE Scan(x, k + 1)
NewHandle ==
    /\ handle = "none"
    /\ handle' = "live" /\ off' = 0 /\ last' = ends[1]
    /\ lastop' = [op |-> "new"]
    /\ UNCHANGED << ends, pieces, vprev, vlast, before >>
HandleQuery(x) ==
    /\ handle = "live"
    /\ IF Leq(last, x) THEN off' = Scan(x, off)
       ELSE LET cand == { i \in 1..off : Leq(ends[i], x) } IN
            off' = IF cand = {} THEN 0 ELSE CHOOSE i \in cand : \A k \in cand : k <= i
    /\ last' = x
    /\ lastop' = [op |-> "query", x |-> x, y |-> A!Eval(pieces[off' + 1], x), piece |-> off' + 1]
    /\ UNCHANGED << ends, pieces, handle, vprev, vlast, before >>
DropHandle ==
    /\ handle = "live"
    /\ handle' = "none" /\ lastop' = [op |-> "drop"]
    /\ UNCHANGED << ends, pieces, off, last, vprev, vlast, before >>

\* evaluate_v over a non-decreasing batch: start, feed, end (the iterator borrows the object as well)
RECURSIVE Seek(_, _)
Seek(x, i) == IF i > Len(ends) THEN Len(ends) ELSE IF LtN(x, ends[i]) THEN i ELSE Seek(x, i + 1)
BatchStart ==
    /\ vprev = 0 /\ vprev' = 1 /\ vlast' = << >> /\ lastop' = [op |-> "vstart"]
    /\ UNCHANGED << ends, pieces, handle, off, last, before >>
BatchFeed(x) ==
    /\ vprev > 0
    /\ (vlast # << >> => Leq(vlast[1], x))               \* the documented use: successively increasing points
    /\ vprev' = Seek(x, vprev) /\ vlast' = << x >>
    /\ lastop' = [op |-> "vnext", x |-> x, y |-> A!Eval(pieces[vprev'], x), piece |-> vprev']
    /\ UNCHANGED << ends, pieces, handle, off, last, before >>
BatchEnd ==
    /\ vprev > 0 /\ vprev' = 0 /\ vlast' = << >> /\ lastop' = [op |-> "vend"]
    /\ UNCHANGED << ends, pieces, handle, off, last, before >>

-----------------------------------------------------------------------------
\* Outcomes (C16): see Outcomes.tla (DocumentedReject, OutcomeOK), EXTENDed above.

-----------------------------------------------------------------------------
\* System-level invariants.
WellFormed == P!WellFormed(ends) /\ Len(pieces) = Len(ends) /\ \A j \in 1..Len(pieces) : Len(pieces[j]) = Len(pieces[1])

\* every mutation except + and - keeps the breakpoints; + and - draw theirs from the operands
EndsPreserved ==
    lastop.op \in { "scale", "neg", "translate", "derive", "integrate" } => ends = before.ends
EndsFromOperands ==
    lastop.op \in { "add", "sub" } =>
        \A k \in 1..Len(ends) : (\E a \in 1..Len(before.ends) : before.ends[a] = ends[k])
                                \/ (\E b \in 1..Len(lastop.g.ends) : lastop.g.ends[b] = ends[k])

\* pointwise meaning at an argument x
MeaningAt(x) ==
    LET now == EvalObj(Obj, x)  was == EvalObj(before, x) IN
    CASE lastop.op = "scale"     -> now = Mul(lastop.s, was)
      [] lastop.op = "neg"       -> now = Neg(was)
      [] lastop.op = "translate" -> now = Add(was, lastop.s)
      [] lastop.op = "add"       -> now = Add(was, EvalObj(lastop.g, x))
      [] lastop.op = "sub"       -> now = Sub(was, EvalObj(lastop.g, x))
      [] OTHER -> TRUE

DegreeBookkeeping ==
    CASE lastop.op = "derive"    -> Len(pieces[1]) = (IF Len(before.pieces[1]) = 1 THEN 1 ELSE Len(before.pieces[1]) - 1)
      [] lastop.op = "integrate" -> Len(pieces[1]) = Len(before.pieces[1]) + 1
      [] OTHER -> TRUE

\* the integral is continuous, passes through the knot and differentiates back to the integrand
IntegralFacts ==
    lastop.op = "integrate" =>
        /\ A!Eval(pieces[1], lastop.kx) = lastop.ky
        /\ \A j \in 1..(Len(pieces) - 1) : A!Eval(pieces[j], ends[j]) = A!Eval(pieces[j + 1], ends[j])
        /\ DeriveX(pieces) = before.pieces

\* the three evaluation paths agree on the piece and the value
PathsAgree ==
    /\ lastop.op = "query" => (lastop.piece = P!Select(ends, lastop.x) /\ lastop.y = EvalObj(Obj, lastop.x))
    /\ lastop.op = "vnext" => (lastop.piece = P!Select(ends, lastop.x) /\ lastop.y = EvalObj(Obj, lastop.x))
=============================================================================
