------------------------------- MODULE EvalV --------------------------------
(***************************************************************************)
(* Piecewise::evaluate_v of src/piecewise.rs: a lazy iterator adapter with *)
(* a hidden forward-only cursor.                                           *)
(*                                                                         *)
(*   prev     cursor (1-based piece index; the code's prev_seg + 1)        *)
(*   runmax   running maximum of the non-NaN arguments fed so far          *)
(*   fed      number of arguments fed                                      *)
(*   pulled, yielded   laziness counters: input items pulled, outputs made *)
(*   sel, arg observation of the most recent output                        *)
(***************************************************************************)
EXTENDS Integers, Sequences

CONSTANTS Lt(_, _), Le(_, _), IsNaN(_)

VARIABLES ends, prev, runmax, fed, pulled, yielded, sel, arg

vars == << ends, prev, runmax, fed, pulled, yielded, sel, arg >>

P == INSTANCE Piecewise

\* evaluate_v(..) itself: asserts non-empty, pulls nothing.
Start(e) ==
    /\ Len(e) >= 1
    /\ ends' = e /\ prev' = 1 /\ runmax' = e[1] /\ fed' = 0
    /\ pulled' = 0 /\ yielded' = 0 /\ sel' = 0 /\ arg' = e[1]

\* segments[prev..].position(|seg| x < seg.end), else the last piece
RECURSIVE Seek(_, _)
Seek(x, i) == IF i > Len(ends) THEN Len(ends)
              ELSE IF Lt(x, ends[i]) THEN i ELSE Seek(x, i + 1)

\* one next() on the output iterator with x the next input item
Feed(x) ==
    /\ prev' = Seek(x, prev)
    /\ sel' = prev' /\ arg' = x
    /\ runmax' = IF fed = 0 \/ Lt(runmax, x) THEN x ELSE runmax
    /\ fed' = fed + 1
    /\ pulled' = pulled + 1 /\ yielded' = yielded + 1
    /\ UNCHANGED ends

-----------------------------------------------------------------------------
\* C12(b): on any NaN-free input the piece used is the one direct evaluation selects
\* for the running maximum; (a) is the special case of non-decreasing input, where
\* the running maximum is the argument itself.
ContractB == (fed > 0 /\ ~IsNaN(runmax)) => sel = P!Select(ends, runmax)
\* C12(c): laziness -- exactly one input item per output item, nothing ahead of time.
Lazy == pulled = yielded /\ pulled = fed
TypeOK == prev \in 1..Len(ends)
=============================================================================
