------------------------------- MODULE Merge --------------------------------
(***************************************************************************)
(* The two-cursor breakpoint merge behind `&f + &g` and `&f - &g`          *)
(* (src/piecewise.rs has two textual copies; this is the one machine both  *)
(* must refine).  One action per loop iteration, the code's own variables: *)
(*   i, j      cursors (1-based), res the output so far as <<end, pi, pj>> *)
(*   pc        "loop" | "done" | "panic"                                   *)
(***************************************************************************)
EXTENDS Integers, Sequences

CONSTANTS Lt(_, _), Le(_, _), IsNaN(_)

VARIABLES fe, ge, i, j, res, pc

vars == << fe, ge, i, j, res, pc >>

P == INSTANCE Piecewise

Begin(f, g) ==
    /\ fe' = f /\ ge' = g /\ i' = 1 /\ j' = 1 /\ res' = << >>
    \* `len() + len() - 1` / `len() - 1` underflow on an empty operand: documented rejection
    /\ pc' = IF Len(f) = 0 \/ Len(g) = 0 THEN "panic" ELSE "loop"

Min(a, b) == IF a < b THEN a ELSE b

Step ==
    /\ pc = "loop"
    /\ LET a == fe[i]  b == ge[j]
           aLast == i >= Len(fe)
           bLast == j >= Len(ge)
       IN  IF IsNaN(a) \/ IsNaN(b)
           THEN \* partial_cmp(..).unwrap()
                pc' = "panic" /\ UNCHANGED << i, j, res >>
           ELSE /\ IF Lt(a, b)
                   THEN IF aLast THEN /\ j' = j + 1 /\ i' = i /\ res' = Append(res, << b, i, j >>)
                                 ELSE /\ i' = i + 1 /\ j' = j /\ res' = Append(res, << a, i, j >>)
                   ELSE IF Lt(b, a)
                   THEN IF bLast THEN /\ i' = i + 1 /\ j' = j /\ res' = Append(res, << a, i, j >>)
                                 ELSE /\ j' = j + 1 /\ i' = i /\ res' = Append(res, << b, i, j >>)
                   ELSE /\ i' = Min(Len(fe), i + 1) /\ j' = Min(Len(ge), j + 1)
                        /\ res' = Append(res, << a, i, j >>)
                /\ pc' = IF aLast /\ bLast THEN "done" ELSE "loop"
    /\ UNCHANGED << fe, ge >>

-----------------------------------------------------------------------------
\* Index safety at every indexing point of the loop.
InBounds == pc = "loop" => (i \in 1..Len(fe) /\ j \in 1..Len(ge))

ResEnds == [k \in 1..Len(res) |-> res[k][1]]

\* C13 at a single argument x
PointwiseAt(x) ==
    LET r == res[P!Select(ResEnds, x)]
    IN  r[2] = P!Select(fe, x) /\ r[3] = P!Select(ge, x)

ShapeOK ==
    /\ Len(res) >= 1
    /\ Len(res) <= Len(fe) + Len(ge) - 1
    /\ P!WellFormed(ResEnds)
    /\ \A k \in 1..Len(res) : (\E a \in 1..Len(fe) : fe[a] = res[k][1]) \/ (\E b \in 1..Len(ge) : ge[b] = res[k][1])

\* the only panics are the documented ones
PanicOnlyDocumented ==
    pc = "panic" => \/ Len(fe) = 0 \/ Len(ge) = 0
                    \/ \E k \in 1..Len(fe) : IsNaN(fe[k])
                    \/ \E k \in 1..Len(ge) : IsNaN(ge[k])
=============================================================================
