-------------------------------- MODULE Arb ---------------------------------
(***************************************************************************)
(* `impl Arbitrary for Piecewise<T>`: decode / validate / sort / draw.     *)
(* The byte-level decoding of Vec<f64> belongs to the `arbitrary` crate    *)
(* and is environment here: the machine starts from the decoded list.      *)
(***************************************************************************)
EXTENDS Integers, Sequences, FiniteSets

CONSTANTS Lt(_, _), Le(_, _), IsNaN(_), IsNormal(_)

P == INSTANCE Piecewise

Accepts(decoded) == Len(decoded) >= 1 /\ \A k \in 1..Len(decoded) : IsNormal(decoded[k])

\* s is a sorted rearrangement of d
IsPerm(s, d) ==
    /\ Len(s) = Len(d)
    /\ \E f \in [1..Len(d) -> 1..Len(d)] :
           /\ \A a, b \in 1..Len(d) : a # b => f[a] # f[b]
           /\ \A a \in 1..Len(d) : s[a] = d[f[a]]

Sorted(s) == \A k \in 1..(Len(s) - 1) : Le(s[k], s[k + 1])

\* cheap multiset equality for long lists: every value occurs equally often
Count(s, v) == Cardinality({ k \in 1..Len(s) : s[k] = v })
SameMultiset(s, d) ==
    Len(s) = Len(d) /\ \A k \in 1..Len(d) : Count(s, d[k]) = Count(d, d[k])

\* outcome \in {"err", "ok", "panic"}; ends meaningful when "ok"
Contract(decoded, outcome, ends) ==
    /\ outcome # "panic"
    /\ outcome = "ok" <=> Accepts(decoded)
    /\ outcome = "ok" =>
          /\ Len(ends) >= 1
          /\ \A k \in 1..Len(ends) : IsNormal(ends[k])
          /\ Sorted(ends)
          /\ SameMultiset(ends, decoded)
          /\ P!WellFormed(ends)
=============================================================================
