----------------------------- MODULE Piecewise ------------------------------
(***************************************************************************)
(* Order-theoretic core of src/piecewise.rs: which piece answers a query.  *)
(*                                                                         *)
(* The module is parameterised by the comparison predicates so that the    *)
(* same definitions are model-checked exhaustively over an abstract domain *)
(* of integer ranks plus a NaN element (spec/mc) and evaluated on real f64 *)
(* bit patterns with the IEEE predicates of F64.tla (spec/trace).  The     *)
(* code uses nothing but these comparisons on breakpoints and arguments.   *)
(***************************************************************************)
EXTENDS Integers, Sequences, FiniteSets

CONSTANTS Lt(_, _),     \* IEEE <   (FALSE if either operand is NaN)
          Le(_, _),     \* IEEE <=  (FALSE if either operand is NaN)
          IsNaN(_)

Gt(a, b) == Lt(b, a)
Ge(a, b) == Le(b, a)

\* The library's precondition on a piecewise function (doc comment says strictly
\* increasing; every operation works with non-decreasing, which is what the
\* properties quantify over).
WellFormed(ends) ==
    /\ Len(ends) >= 1
    /\ \A i \in 1..Len(ends) : ~IsNaN(ends[i])
    /\ \A i \in 1..(Len(ends) - 1) : Le(ends[i], ends[i + 1])

\* C02, declaratively: the first segment whose end is strictly greater than x,
\* or the last segment when no end exceeds x.
Select(ends, x) ==
    IF \E i \in 1..Len(ends) : Gt(ends[i], x)
    THEN CHOOSE i \in 1..Len(ends) : Gt(ends[i], x) /\ \A j \in 1..(i - 1) : ~Gt(ends[j], x)
    ELSE Len(ends)

\* The same, as the linear scan the code performs (position(|seg| seg.end > x)).
RECURSIVE ScanFrom(_, _, _)
ScanFrom(ends, x, i) ==
    IF i >= Len(ends) THEN Len(ends)
    ELSE IF Gt(ends[i], x) THEN i ELSE ScanFrom(ends, x, i + 1)
SelectScan(ends, x) == ScanFrom(ends, x, 1)

\* Consequences stated in C02 (checked in MC_Piecewise for every list and x):
\*  - every breakpoint belongs to the segment on its right,
\*  - zero-width segments (duplicate ends) are never selected unless last,
\*  - the first segment extends to -infinity, the last one to +infinity.
BreakpointGoesRight(ends) ==
    \A i \in 1..(Len(ends) - 1) : Select(ends, ends[i]) > i
HalfOpen(ends, x) ==
    LET s == Select(ends, x) IN
    /\ s > 1 => Le(ends[s - 1], x) \/ IsNaN(x)
    /\ s < Len(ends) => Lt(x, ends[s])
NoZeroWidth(ends, x) ==
    LET s == Select(ends, x) IN
    (s > 1 /\ s < Len(ends)) => Lt(ends[s - 1], ends[s])

\* running maximum of a sequence of non-NaN values (used by evaluate_v, linear)
RECURSIVE RunMaxTo(_, _)
RunMaxTo(xs, n) == IF n = 1 THEN xs[1]
                   ELSE LET m == RunMaxTo(xs, n - 1) IN IF Lt(m, xs[n]) THEN xs[n] ELSE m
=============================================================================
