----------------------------- MODULE Evaluator ------------------------------
(***************************************************************************)
(* The stateful PiecewiseEvaluator of src/piecewise.rs, shaped like the    *)
(* code: one action per public call, the hidden variables the code has.    *)
(*                                                                         *)
(*   ends  breakpoints of the borrowed segment slice (never change)        *)
(*   off   all_segments_front.len() - tail.len(): segments in front of     *)
(*         the cursor                                                      *)
(*   last  last_evaluation                                                 *)
(*   sel, arg   observation: piece (1-based) that answered the most recent *)
(*         query and the argument it was given; sel = 0 before any query   *)
(*                                                                         *)
(* Contract (C03, C16): sel = Select(ends, arg) after every non-NaN query, *)
(* whatever the history, NaN queries included.                             *)
(***************************************************************************)
EXTENDS Integers, Sequences, FiniteSets

CONSTANTS Lt(_, _), Le(_, _), IsNaN(_),
          NaNGuard      \* TRUE: the code after "fix: a NaN query poisoned ..."; FALSE: before

VARIABLES ends, off, last, sel, arg

vars == << ends, off, last, sel, arg >>

P == INSTANCE Piecewise

Front == Len(ends) - 1          \* all_segments_front.len()

\* PiecewiseEvaluator::new: tail = front, last_evaluation = front.first().end or,
\* with a single segment, last.end -- ends[1] either way.
New(e) ==
    /\ Len(e) >= 1               \* split_last().expect(..) panics on an empty slice
    /\ ends' = e
    /\ off' = 0
    /\ last' = e[1]
    /\ sel' = 0
    /\ arg' = e[1]

\* Happy path (x >= last_evaluation): drop segments from the cursor while end <= x.
RECURSIVE Scan(_, _)
Scan(x, k) == IF k >= Front THEN Front
              ELSE IF P!Gt(ends[k + 1], x) THEN k ELSE Scan(x, k + 1)

Forward(x) ==
    /\ P!Ge(x, last)
    /\ off' = Scan(x, off)
    /\ last' = x

\* Unhappy path: greatest segment in front of the cursor with end <= x; the new
\* cursor starts right after it, or at the very first segment if there is none.
Backward(x) ==
    /\ ~P!Ge(x, last)
    /\ LET cand == { i \in 1..off : Le(ends[i], x) }
       IN  off' = IF cand = {} THEN 0 ELSE CHOOSE i \in cand : \A j \in cand : j <= i
    /\ last' = x

\* NaN after the fix: answered from the last segment, cursor untouched.
QueryNaN(x) ==
    /\ IsNaN(x) /\ NaNGuard
    /\ sel' = Len(ends) /\ arg' = x
    /\ UNCHANGED << ends, off, last >>

Query(x) ==
    \/ QueryNaN(x)
    \/ /\ ~(IsNaN(x) /\ NaNGuard)
       /\ (Forward(x) \/ Backward(x))
       /\ sel' = off' + 1
       /\ arg' = x
       /\ UNCHANGED ends

-----------------------------------------------------------------------------
\* What a user relies on.
Contract == (sel # 0 /\ ~IsNaN(arg)) => sel = P!Select(ends, arg)

\* What makes the backward branch right (the reader's inductive invariant):
\*  I1  everything in front of the cursor ends at or before the last argument
\*  I2  the segment under the cursor ends after the last argument
\* I2 has an exception, the initial wart: new() sets last = ends[1] with the cursor
\* on segment 1, whose end is not greater than last.  That state is harmless: a
\* query x >= last scans forward from the first segment, a query x < last = ends[1]
\* finds nothing in front of the cursor and stays on segment 1, which is right.
TypeOK == off \in 0..Front /\ sel \in 0..Len(ends)
I1 == ~IsNaN(last) => \A i \in 1..off : Le(ends[i], last)
I2 == (~IsNaN(last) /\ off < Front) =>
          P!Gt(ends[off + 1], last) \/ (off = 0 /\ last = ends[1])
=============================================================================
