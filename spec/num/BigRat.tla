------------------------------- MODULE BigRat -------------------------------
(***************************************************************************)
(* Exact, unbounded rational arithmetic for TLC.                           *)
(*                                                                         *)
(* TLC's own integers are 32-bit, which is enough for the exhaustive       *)
(* small-grid models (modules IntNum / Rat) but not for judging real f64   *)
(* results, whose exact values need ~2100-bit numerators.  The operators   *)
(* below are the *arithmetic primitives* only; each has a Java override    *)
(* (spec/num/java/verifov/BigRatOverrides.java, loaded with                *)
(* -Dtlc2.overrides.TLCOverrides=...:verifov.Index).  The TLA+ bodies are  *)
(* the primitives' specification over the abstract value Val(q) and are    *)
(* never evaluated by TLC.                                                 *)
(*                                                                         *)
(* Representation (opaque to every other module): << N, D >> with          *)
(* N = << sign, l0, l1, ... >> and D = << l0, ... >>, limbs base 2^30,     *)
(* lowest terms; hence TLA+ `=' on these tuples is equality of rationals.  *)
(***************************************************************************)
EXTENDS Integers, Sequences

LOCAL Base == 1073741824  \* 2^30

\* Abstract value of a limb sequence / of a rational, for the documentation bodies.
RECURSIVE LimbVal(_, _)
LOCAL LimbVal(s, i) == IF i > Len(s) THEN 0 ELSE s[i] + Base * LimbVal(s, i + 1)
LOCAL NumOf(q) == q[1][1] * LimbVal(q[1], 2)
LOCAL DenOf(q) == LimbVal(q[2], 1)
LOCAL IsBR(q) == DenOf(q) > 0
\* "the rational that equals n/d" -- documentation only
LOCAL Mk(n, d) == CHOOSE q \in Seq(Seq(Int)) : IsBR(q) /\ NumOf(q) * d = n * DenOf(q)

BR(i)        == Mk(i, 1)
BRFrac(n, d) == Mk(n, d)
BRAdd(a, b)  == Mk(NumOf(a) * DenOf(b) + NumOf(b) * DenOf(a), DenOf(a) * DenOf(b))
BRSub(a, b)  == Mk(NumOf(a) * DenOf(b) - NumOf(b) * DenOf(a), DenOf(a) * DenOf(b))
BRMul(a, b)  == Mk(NumOf(a) * NumOf(b), DenOf(a) * DenOf(b))
BRDiv(a, b)  == Mk(NumOf(a) * DenOf(b), DenOf(a) * NumOf(b))
BRNeg(a)     == Mk(-NumOf(a), DenOf(a))
BRAbs(a)     == IF NumOf(a) < 0 THEN BRNeg(a) ELSE a
BRCmp(a, b)  == LET l == NumOf(a) * DenOf(b)  r == NumOf(b) * DenOf(a)
                IN  IF l < r THEN -1 ELSE IF l = r THEN 0 ELSE 1
BRSign(a)    == IF NumOf(a) < 0 THEN -1 ELSE IF NumOf(a) = 0 THEN 0 ELSE 1

\* 2^e, e any integer
BRPow2(e)    == IF e >= 0 THEN Mk(2 ^ e, 1) ELSE Mk(1, 2 ^ (-e))
\* floor(log2 |a|), a # 0
BRILog2(a)   == CHOOSE e \in Int : BRCmp(BRPow2(e), BRAbs(a)) <= 0 /\ BRCmp(BRAbs(a), BRPow2(e + 1)) < 0
\* 2-adic valuation of a # 0
BRVal2(a)    == CHOOSE e \in Int : \E n, d \in Int : n % 2 = 1 /\ d % 2 = 1 /\ a = BRMul(Mk(n, d), BRPow2(e))
\* nearest multiple of 2^-bits below (dir = -1) or above (dir = 1) a
BRTrunc(a, bits, dir) ==
    CHOOSE t \in Seq(Seq(Int)) :
        /\ \E k \in Int : t = BRMul(BR(k), BRPow2(-bits))
        /\ IF dir < 0 THEN BRCmp(t, a) <= 0 /\ BRCmp(a, BRAdd(t, BRPow2(-bits))) < 0
                      ELSE BRCmp(a, t) <= 0 /\ BRCmp(BRSub(t, BRPow2(-bits)), a) < 0
BRFloorInt(a) == CHOOSE k \in Int : BRCmp(BR(k), a) <= 0 /\ BRCmp(a, BR(k + 1)) < 0
BRIsInt(a)    == DenOf(a) = 1

\* Exact value of the finite IEEE-754 binary64 whose bit pattern is hi*2^32 + (lo mod 2^32),
\* hi and lo signed 32-bit integers.  (F64.tla gives the field decomposition in plain TLA+
\* and MC_Num checks this primitive against it.)
BRFromF64(hi, lo) == CHOOSE q \in Seq(Seq(Int)) : IsBR(q)
\* Bit pattern << hi, lo >> of the binary64 nearest to a, ties to even, overflow to infinity.
BRToF64(a)        == CHOOSE b \in Int \X Int : TRUE
\* decimal rendering for diagnostics only
BRStr(a)          == "?"

-----------------------------------------------------------------------------
\* Derived, plain TLA+ (no overrides below this line).
BRZero == BR(0)
BROne  == BR(1)
BRLe(a, b) == BRCmp(a, b) <= 0
BRLt(a, b) == BRCmp(a, b) < 0
BRGe(a, b) == BRCmp(a, b) >= 0
BRGt(a, b) == BRCmp(a, b) > 0
BRMax(a, b) == IF BRLe(a, b) THEN b ELSE a
BRMin(a, b) == IF BRLe(a, b) THEN a ELSE b
BRScale2(a, e) == BRMul(a, BRPow2(e))
=============================================================================
