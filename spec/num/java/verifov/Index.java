package verifov;

import tlc2.overrides.ITLCOverrides;

/** Override index named in -Dtlc2.overrides.TLCOverrides (next to the CommunityModules one). */
public class Index implements ITLCOverrides {
    @SuppressWarnings("rawtypes")
    @Override
    public Class[] get() {
        return new Class[] { BigRatOverrides.class };
    }
}
