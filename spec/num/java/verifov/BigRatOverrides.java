package verifov;

import java.math.BigInteger;

import tlc2.overrides.TLAPlusOperator;
import tlc2.value.impl.BoolValue;
import tlc2.value.impl.IntValue;
import tlc2.value.impl.StringValue;
import tlc2.value.impl.TupleValue;
import tlc2.value.impl.Value;

/**
 * Arithmetic primitives of module BigRat: exact unbounded rationals for TLC.
 *
 * A rational is the TLA+ value << N, D >> with N = << sign, l0, l1, ... >> (sign in
 * {-1,0,1}; l_i the little-endian base-2^30 limbs of |numerator|) and D = << l0, ... >>
 * the limbs of the positive denominator, in lowest terms -- so TLA+ equality of the
 * tuples is equality of the rationals. Only primitives live here (+ - * / compare,
 * power of two, floor(log2), truncation to a dyadic grid, exact decoding of an IEEE-754
 * binary64 bit pattern and round-to-nearest-even encoding); everything the properties
 * say is written in TLA+ on top of them.
 */
public final class BigRatOverrides {
    private static final int LIMB = 30;
    private static final BigInteger MASK = BigInteger.ONE.shiftLeft(LIMB).subtract(BigInteger.ONE);

    private BigRatOverrides() {}

    // ---------------------------------------------------------------- representation

    private static final class Q {
        final BigInteger n, d; // d > 0, gcd(n,d) = 1
        Q(BigInteger n, BigInteger d) {
            if (d.signum() == 0) throw new ArithmeticException("BigRat: division by zero");
            if (d.signum() < 0) { n = n.negate(); d = d.negate(); }
            if (n.signum() == 0) { d = BigInteger.ONE; }
            else if (!d.equals(BigInteger.ONE)) {
                // fast path for dyadics
                int tz = Math.min(n.getLowestSetBit(), d.getLowestSetBit());
                if (tz > 0) { n = n.shiftRight(tz); d = d.shiftRight(tz); }
                if (!d.equals(BigInteger.ONE) && d.bitCount() != 1) {
                    BigInteger g = n.gcd(d);
                    if (!g.equals(BigInteger.ONE)) { n = n.divide(g); d = d.divide(g); }
                } else if (!d.equals(BigInteger.ONE)) {
                    // d is a power of two and n is now odd or d is 1: already reduced
                }
            }
            this.n = n; this.d = d;
        }
    }

    private static BigInteger limbsToBig(TupleValue t, int from) {
        BigInteger r = BigInteger.ZERO;
        for (int i = t.elems.length - 1; i >= from; i--) {
            r = r.shiftLeft(LIMB).or(BigInteger.valueOf(((IntValue) t.elems[i]).val));
        }
        return r;
    }

    private static Q dec(Value v) {
        TupleValue t = (TupleValue) v.toTuple();
        TupleValue n = (TupleValue) t.elems[0].toTuple();
        TupleValue d = (TupleValue) t.elems[1].toTuple();
        int s = ((IntValue) n.elems[0]).val;
        BigInteger nn = limbsToBig(n, 1);
        if (s < 0) nn = nn.negate();
        BigInteger dd = limbsToBig(d, 0);
        return new Q(nn, dd);
    }

    private static Value[] limbs(BigInteger m, int prefix) {
        int k = m.signum() == 0 ? 0 : (m.bitLength() + LIMB - 1) / LIMB;
        Value[] out = new Value[k + prefix];
        for (int i = 0; i < k; i++) {
            out[prefix + i] = IntValue.gen(m.and(MASK).intValue());
            m = m.shiftRight(LIMB);
        }
        return out;
    }

    private static Value enc(Q q) {
        Value[] n = limbs(q.n.abs(), 1);
        n[0] = IntValue.gen(q.n.signum());
        Value[] d = limbs(q.d, 0);
        return new TupleValue(new Value[] { new TupleValue(n), new TupleValue(d) });
    }

    private static int iv(Value v) { return ((IntValue) v).val; }

    // ---------------------------------------------------------------- field operations

    @TLAPlusOperator(identifier = "BR", module = "BigRat", warn = false)
    public static Value fromInt(final Value i) {
        return enc(new Q(BigInteger.valueOf(iv(i)), BigInteger.ONE));
    }

    @TLAPlusOperator(identifier = "BRFrac", module = "BigRat", warn = false)
    public static Value frac(final Value n, final Value d) {
        return enc(new Q(BigInteger.valueOf(iv(n)), BigInteger.valueOf(iv(d))));
    }

    @TLAPlusOperator(identifier = "BRAdd", module = "BigRat", warn = false)
    public static Value add(final Value a, final Value b) {
        Q x = dec(a), y = dec(b);
        if (x.d.equals(y.d)) return enc(new Q(x.n.add(y.n), x.d));
        return enc(new Q(x.n.multiply(y.d).add(y.n.multiply(x.d)), x.d.multiply(y.d)));
    }

    @TLAPlusOperator(identifier = "BRSub", module = "BigRat", warn = false)
    public static Value sub(final Value a, final Value b) {
        Q x = dec(a), y = dec(b);
        if (x.d.equals(y.d)) return enc(new Q(x.n.subtract(y.n), x.d));
        return enc(new Q(x.n.multiply(y.d).subtract(y.n.multiply(x.d)), x.d.multiply(y.d)));
    }

    @TLAPlusOperator(identifier = "BRMul", module = "BigRat", warn = false)
    public static Value mul(final Value a, final Value b) {
        Q x = dec(a), y = dec(b);
        return enc(new Q(x.n.multiply(y.n), x.d.multiply(y.d)));
    }

    @TLAPlusOperator(identifier = "BRDiv", module = "BigRat", warn = false)
    public static Value div(final Value a, final Value b) {
        Q x = dec(a), y = dec(b);
        return enc(new Q(x.n.multiply(y.d), x.d.multiply(y.n)));
    }

    @TLAPlusOperator(identifier = "BRNeg", module = "BigRat", warn = false)
    public static Value neg(final Value a) {
        Q x = dec(a);
        return enc(new Q(x.n.negate(), x.d));
    }

    @TLAPlusOperator(identifier = "BRAbs", module = "BigRat", warn = false)
    public static Value abs(final Value a) {
        Q x = dec(a);
        return enc(new Q(x.n.abs(), x.d));
    }

    @TLAPlusOperator(identifier = "BRCmp", module = "BigRat", warn = false)
    public static Value cmp(final Value a, final Value b) {
        Q x = dec(a), y = dec(b);
        return IntValue.gen(x.n.multiply(y.d).compareTo(y.n.multiply(x.d)));
    }

    @TLAPlusOperator(identifier = "BRSign", module = "BigRat", warn = false)
    public static Value sign(final Value a) {
        return IntValue.gen(dec(a).n.signum());
    }

    // ---------------------------------------------------------------- dyadic helpers

    /** 2^e for any TLC integer e. */
    @TLAPlusOperator(identifier = "BRPow2", module = "BigRat", warn = false)
    public static Value pow2(final Value e) {
        int k = iv(e);
        return k >= 0 ? enc(new Q(BigInteger.ONE.shiftLeft(k), BigInteger.ONE))
                      : enc(new Q(BigInteger.ONE, BigInteger.ONE.shiftLeft(-k)));
    }

    /** floor(log2 |a|) for a # 0. */
    @TLAPlusOperator(identifier = "BRILog2", module = "BigRat", warn = false)
    public static Value ilog2(final Value a) {
        Q x = dec(a);
        if (x.n.signum() == 0) throw new ArithmeticException("BRILog2(0)");
        return IntValue.gen(ilog2(x.n.abs(), x.d));
    }

    private static int ilog2(BigInteger n, BigInteger d) {
        int e = n.bitLength() - d.bitLength(); // 2^(e-1) < n/d < 2^(e+1)
        // n/d >= 2^e ?
        boolean ge = e >= 0 ? n.compareTo(d.shiftLeft(e)) >= 0 : n.shiftLeft(-e).compareTo(d) >= 0;
        return ge ? e : e - 1;
    }

    /** 2-adic valuation of a # 0: the largest e with a / 2^e an odd-over-odd rational. */
    @TLAPlusOperator(identifier = "BRVal2", module = "BigRat", warn = false)
    public static Value val2(final Value a) {
        Q x = dec(a);
        if (x.n.signum() == 0) throw new ArithmeticException("BRVal2(0)");
        return IntValue.gen(x.n.getLowestSetBit() - x.d.getLowestSetBit());
    }

    /** Largest (dir = -1) / smallest (dir = +1) multiple of 2^-bits that is <= / >= a. */
    @TLAPlusOperator(identifier = "BRTrunc", module = "BigRat", warn = false)
    public static Value trunc(final Value a, final Value bits, final Value dir) {
        Q x = dec(a);
        int b = iv(bits);
        BigInteger num = b >= 0 ? x.n.shiftLeft(b) : x.n;
        BigInteger den = b >= 0 ? x.d : x.d.shiftLeft(-b);
        BigInteger[] qr = num.divideAndRemainder(den); // truncates toward zero
        BigInteger q = qr[0];
        if (qr[1].signum() != 0) {
            if (iv(dir) < 0 && qr[1].signum() < 0) q = q.subtract(BigInteger.ONE);
            if (iv(dir) > 0 && qr[1].signum() > 0) q = q.add(BigInteger.ONE);
        }
        return b >= 0 ? enc(new Q(q, BigInteger.ONE.shiftLeft(b)))
                      : enc(new Q(q.shiftLeft(-b), BigInteger.ONE));
    }

    /** floor(a) as a TLC integer (must fit in 32 bits). */
    @TLAPlusOperator(identifier = "BRFloorInt", module = "BigRat", warn = false)
    public static Value floorInt(final Value a) {
        Q x = dec(a);
        BigInteger[] qr = x.n.divideAndRemainder(x.d);
        BigInteger q = qr[0];
        if (qr[1].signum() < 0) q = q.subtract(BigInteger.ONE);
        return IntValue.gen(q.intValueExact());
    }

    // ---------------------------------------------------------------- IEEE-754 binary64

    private static long bits(Value hi, Value lo) {
        return (((long) iv(hi)) << 32) | (((long) iv(lo)) & 0xffffffffL);
    }

    /** Exact value of the finite binary64 with the given (signed 32-bit) halves. */
    @TLAPlusOperator(identifier = "BRFromF64", module = "BigRat", warn = false)
    public static Value fromF64(final Value hi, final Value lo) {
        long b = bits(hi, lo);
        int e = (int) ((b >>> 52) & 0x7ff);
        long m = b & 0xfffffffffffffL;
        if (e == 0x7ff) throw new ArithmeticException("BRFromF64: not finite");
        if (e == 0) e = 1; else m |= 1L << 52;
        BigInteger n = BigInteger.valueOf(m);
        if (b < 0) n = n.negate();
        int sh = e - 1075;
        return sh >= 0 ? enc(new Q(n.shiftLeft(sh), BigInteger.ONE))
                       : enc(new Q(n, BigInteger.ONE.shiftLeft(-sh)));
    }

    /**
     * Bits << hi, lo >> of the binary64 nearest to a (ties to even); overflow gives the
     * infinity; a zero result carries the sign of a (and +0 for a = 0).
     */
    @TLAPlusOperator(identifier = "BRToF64", module = "BigRat", warn = false)
    public static Value toF64(final Value a) {
        Q x = dec(a);
        long out;
        if (x.n.signum() == 0) {
            out = 0L;
        } else {
            BigInteger n = x.n.abs();
            int e = ilog2(n, x.d);           // 2^e <= |a| < 2^(e+1)
            int q = Math.max(e, -1022) - 52; // exponent of the unit in the last place
            // m = round(|a| / 2^q) to nearest even
            BigInteger num = q >= 0 ? n : n.shiftLeft(-q);
            BigInteger den = q >= 0 ? x.d.shiftLeft(q) : x.d;
            BigInteger[] qr = num.divideAndRemainder(den);
            BigInteger m = qr[0];
            int c = qr[1].shiftLeft(1).compareTo(den);
            if (c > 0 || (c == 0 && m.testBit(0))) m = m.add(BigInteger.ONE);
            long mm = m.longValueExact();
            if (mm == (1L << 53)) { mm >>= 1; q += 1; }
            long be;
            if (mm < (1L << 52)) { be = 0; }            // subnormal (q = -1074)
            else { be = q + 52 + 1023; mm &= 0xfffffffffffffL; }
            out = be >= 0x7ff ? 0x7ff0000000000000L : ((be << 52) | mm);
            if (x.n.signum() < 0) out |= 0x8000000000000000L;
        }
        return new TupleValue(new Value[] {
            IntValue.gen((int) (out >> 32)), IntValue.gen((int) out) });
    }

    // ---------------------------------------------------------------- diagnostics

    @TLAPlusOperator(identifier = "BRStr", module = "BigRat", warn = false)
    public static Value str(final Value a) {
        Q x = dec(a);
        // approximate decimal for messages; never used in a verdict
        java.math.BigDecimal bd = new java.math.BigDecimal(x.n)
            .divide(new java.math.BigDecimal(x.d), new java.math.MathContext(25));
        return new StringValue(bd.toString());
    }

    @TLAPlusOperator(identifier = "BRIsInt", module = "BigRat", warn = false)
    public static Value isInt(final Value a) {
        return dec(a).d.equals(BigInteger.ONE) ? BoolValue.ValTrue : BoolValue.ValFalse;
    }
}
