-------------------------------- MODULE Rat ---------------------------------
(***************************************************************************)
(* Rationals in plain TLA+ (normalised pairs << n, d >>, d > 0), for the   *)
(* exhaustive small-grid models.  TLC integers are 32-bit but TLC reports  *)
(* overflow instead of wrapping, so a grid that is too large is a tool     *)
(* error, never an unsound pass.                                           *)
(***************************************************************************)
EXTENDS Integers

RECURSIVE Gcd(_, _)
Gcd(a, b) == IF b = 0 THEN a ELSE Gcd(b, a % b)
IAbs(a) == IF a < 0 THEN -a ELSE a

Norm(n, d) ==
    LET s == IF d < 0 THEN -1 ELSE 1
        g == Gcd(IAbs(n), IAbs(d))
    IN  IF n = 0 THEN << 0, 1 >> ELSE << (s * n) \div g, (s * d) \div g >>

RZero == << 0, 1 >>
ROne  == << 1, 1 >>
RInt(i) == << i, 1 >>
RFrac(n, d) == Norm(n, d)
RAdd(a, b) == Norm(a[1] * b[2] + b[1] * a[2], a[2] * b[2])
RSub(a, b) == Norm(a[1] * b[2] - b[1] * a[2], a[2] * b[2])
RMul(a, b) == Norm(a[1] * b[1], a[2] * b[2])
RDiv(a, b) == Norm(a[1] * b[2], a[2] * b[1])
RNeg(a) == << -a[1], a[2] >>
RAbs(a) == << IAbs(a[1]), a[2] >>
RLeq(a, b) == a[1] * b[2] <= b[1] * a[2]
RLt(a, b)  == a[1] * b[2] <  b[1] * a[2]
RSign(a) == IF a[1] < 0 THEN -1 ELSE IF a[1] = 0 THEN 0 ELSE 1
RMin(a, b) == IF RLeq(a, b) THEN a ELSE b
RMax(a, b) == IF RLeq(a, b) THEN b ELSE a
=============================================================================
