------------------------------ MODULE RealFns -------------------------------
(***************************************************************************)
(* ln and the exponential tail R(x) = sum_{m>=0} x^m/(m+5)! to ~190 bits,  *)
(* as truncated series over BigRat with explicit error accounting.  The    *)
(* properties' tolerances are >= 2^-53 relative, so a 2^-150 enclosure is  *)
(* absorbed by judging against [lo - tol, hi + tol].                       *)
(*                                                                         *)
(* Fixed-point discipline: intermediate values are truncated to WP         *)
(* fractional bits (BRTrunc, error < 2^-WP each); every series below       *)
(* performs < 2^13 such truncations on quantities that are then multiplied *)
(* by at most 2^11, so the absolute error of a result is < 2^-(WP-26).     *)
(***************************************************************************)
EXTENDS Integers, Sequences, BigRat

WP == 256
Tr(q) == BRTrunc(q, WP, -1)
ErrAbs == BRPow2(-200)            \* bound on the absolute error of LnApprox (|ln| < 750, relative error 2^-220) and of ExpTailSeries

\* sum_{k=0..K-1} z^(2k+1)/(2k+1)  (atanh series), |z| <= 1/3
RECURSIVE AtanhIter(_, _, _, _, _)
AtanhIter(z2, pw, k, K, acc) ==
    IF k = K THEN acc
    ELSE AtanhIter(z2, Tr(BRMul(pw, z2)), k + 1, K, BRAdd(acc, Tr(BRDiv(pw, BR(2 * k + 1)))))
Atanh(z, K) == AtanhIter(Tr(BRMul(z, z)), z, 0, K, BRZero)

\* ln 2 = 2 atanh(1/3); remainder after 90 terms < (1/9)^90 < 2^-285
Ln2 == BRMul(BR(2), Atanh(BRFrac(1, 3), 90))

\* ln((16+k)/16) = 2 atanh(k/(32+k)), k = 0..15: evaluated once (constant-level definition)
LnTab == [k \in 0..15 |-> IF k = 0 THEN BRZero ELSE BRMul(BR(2), Atanh(BRFrac(k, 32 + k), 70))]

\* atanh(z)/z = sum_k z^(2k)/(2k+1), a number in [1, 1.1] for |z| < 1/3: truncating *it* to WP bits gives a
\* relative error of 2^-(WP-8) in atanh(z) = z * (atanh(z)/z), however small z is.
RECURSIVE AtanhOverZIter(_, _, _, _, _)
AtanhOverZIter(z2, pw, k, K, acc) ==
    IF k = K THEN acc
    ELSE AtanhOverZIter(z2, Tr(BRMul(pw, z2)), k + 1, K, BRAdd(acc, Tr(BRDiv(pw, BR(2 * k + 1)))))
AtanhRel(z, K) == BRMul(z, AtanhOverZIter(BRMul(z, z), BROne, 0, K, BRZero))

\* ln q for a rational q >= 1.  q = m 2^e, m in [1,2); k = floor(16(m-1)); r = 16m/(16+k) in [1, 17/16);
\* ln q = e ln 2 + ln((16+k)/16) + 2 atanh((r-1)/(r+1)), |z| < 1/33, remainder after 30 terms < 33^-61 < 2^-300.
\* For q in [1, 17/16) the first two summands vanish and the result 2 z (atanh(z)/z) is *relatively* accurate
\* (z is exact), so ln is good to 2^-240 relative next to 1 as well, where the properties need it most.
LnPos(q) ==
    LET e == BRILog2(q)
        m == BRMul(q, BRPow2(-e))
        k == BRFloorInt(BRMul(BRSub(m, BROne), BR(16)))
        r == BRDiv(BRMul(m, BR(16)), BR(16 + k))
        z == BRDiv(BRSub(r, BROne), BRAdd(r, BROne))
    IN  IF q = BROne THEN BRZero
        ELSE BRAdd(BRAdd(BRMul(BR(e), Ln2), LnTab[k]), BRMul(BR(2), AtanhRel(z, 30)))
\* ln q for any positive rational: below 1 through the exact reciprocal, so that q = 1 - delta is as good as 1 + delta
LnApprox(q) == IF BRLt(q, BROne) THEN BRNeg(LnPos(BRDiv(BROne, q))) ELSE LnPos(q)
\* relative error of LnApprox (and, since |ln q| < 750 for every positive f64, an absolute bound)
LnRelErr == BRPow2(-220)
LnLo(q) == BRSub(LnApprox(q), ErrAbs)
LnHi(q) == BRAdd(LnApprox(q), ErrAbs)

\* e^y for |y| <= 1/2 by Taylor: 60 terms, remainder < 2^-300
RECURSIVE ExpSmallIter(_, _, _, _)
ExpSmallIter(y, m, term, acc) ==
    IF m = 60 THEN acc ELSE ExpSmallIter(y, m + 1, Tr(BRDiv(BRMul(term, y), BR(m + 1))), BRAdd(acc, term))
RECURSIVE SquareN(_, _)
SquareN(q, k) == IF k = 0 THEN q ELSE SquareN(Tr(BRMul(q, q)), k - 1)
\* e^|x| >= 1 by argument halving and repeated squaring (relative error < 2^-(WP-16) for |x| < 2^11),
\* e^-|x| as its exact reciprocal (no absolute truncation: the value may be far below 2^-WP).
ExpBig(x) ==
    LET ax == BRAbs(x)
        k  == IF BRLe(ax, BRFrac(1, 2)) THEN 0 ELSE BRILog2(ax) + 2
        ep == SquareN(ExpSmallIter(BRMul(ax, BRPow2(-k)), 0, BROne, BRZero), k)
    IN  IF BRSign(x) >= 0 THEN ep ELSE BRDiv(BROne, ep)

P4(x) == LET x2 == BRMul(x, x) IN
         BRAdd(BRAdd(BRAdd(BRAdd(BROne, x), BRDiv(x2, BR(2))), BRDiv(BRMul(x2, x), BR(6))), BRDiv(BRMul(x2, x2), BR(24)))

\* R(x) = sum_{m>=0} x^m/(m+5)!  ( = (e^x - sum_{j<5} x^j/j!)/x^5 ).
\* |x| <= 8: the series.  term_0 = 1/120, term_{m+1} = term_m * x/(m+6); stop once m > 2|x| + 8 (ratio < 1/2
\* from there on) and |term| < 2^-WP: the neglected tail is then < 2^-(WP-1); terms are at most 8^8/13! so the
\* alternating sum for x = -8 loses no more than a few bits.
\* |x| > 8: the closed form (e^x - P4(x))/x^5; e^x and P4(x) differ by a factor > 9 there, so no cancellation.
RECURSIVE ExpTailIter(_, _, _, _, _)
ExpTailIter(x, m, mmin, term, acc) ==
    IF m > mmin /\ BRLt(BRAbs(term), BRPow2(-WP)) THEN acc
    ELSE ExpTailIter(x, m + 1, mmin, Tr(BRDiv(BRMul(term, x), BR(m + 6))), BRAdd(acc, term))
ExpTailSeries(x) == ExpTailIter(x, 0, 2 * BRFloorInt(BRAbs(x)) + 10, BRFrac(1, 120), BRZero)
ExpTail(x) ==
    IF BRLe(BRAbs(x), BR(8)) THEN ExpTailSeries(x)
    ELSE BRDiv(BRSub(ExpBig(x), P4(x)), BRMul(BRMul(BRMul(x, x), BRMul(x, x)), x))

\* e^x from the tail (used only by sanity checks)
Exp(x) ==
    LET x2 == BRMul(x, x)  x3 == BRMul(x2, x)  x4 == BRMul(x2, x2)  x5 == BRMul(x4, x)
    IN  BRAdd(BRAdd(BRAdd(BRAdd(BRAdd(BROne, x), BRDiv(x2, BR(2))), BRDiv(x3, BR(6))), BRDiv(x4, BR(24))),
              BRMul(x5, ExpTail(x)))
=============================================================================
