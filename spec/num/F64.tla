-------------------------------- MODULE F64 ---------------------------------
(***************************************************************************)
(* IEEE-754 binary64 as the library sees it: a 64-bit pattern with a class,*)
(* an exact rational value when finite, the IEEE comparison predicates     *)
(* (NaN unordered, -0 = +0), unit in the last place and round-to-nearest.  *)
(*                                                                         *)
(* A pattern travels through traces as << hi, lo >>, two *signed* 32-bit   *)
(* integers (TLC integers are 32-bit and TLC interns every string for the  *)
(* life of the JVM, so neither decimal nor hex strings are usable for      *)
(* millions of numbers).                                                   *)
(***************************************************************************)
EXTENDS Integers, Sequences, BigRat

\* hi with the sign bit cleared (2^31 itself is not a TLC integer, hence the split)
HiC(b)    == IF b[1] < 0 THEN (b[1] + 2147483647) + 1 ELSE b[1]
SignBit(b) == b[1] < 0
BExp(b)   == HiC(b) \div 1048576          \* biased exponent, 0..2047
MantHi(b) == HiC(b) % 1048576             \* top 20 mantissa bits
MantZero(b) == MantHi(b) = 0 /\ b[2] = 0

IsNaN(b)    == BExp(b) = 2047 /\ ~MantZero(b)
IsInf(b)    == BExp(b) = 2047 /\ MantZero(b)
IsPosInf(b) == IsInf(b) /\ ~SignBit(b)
IsNegInf(b) == IsInf(b) /\ SignBit(b)
IsZero(b)   == BExp(b) = 0 /\ MantZero(b)
IsSubnormal(b) == BExp(b) = 0 /\ ~MantZero(b)
IsNormal(b) == BExp(b) \in 1..2046
IsFinite(b) == BExp(b) # 2047

Class(b) == IF IsNaN(b) THEN "nan"
            ELSE IF IsInf(b) THEN (IF SignBit(b) THEN "-inf" ELSE "+inf")
            ELSE IF IsZero(b) THEN "zero"
            ELSE IF IsSubnormal(b) THEN "subnormal" ELSE "normal"

PosZero == << 0, 0 >>
PosInf  == << 2146435072, 0 >>
OneBits == << 1072693248, 0 >>

\* exact value of a finite pattern
Val(b) == BRFromF64(b[1], b[2])

\* IEEE comparisons.  Every comparison with a NaN operand is FALSE.
Lt(a, b) ==
    /\ ~IsNaN(a) /\ ~IsNaN(b)
    /\ IF IsInf(a) \/ IsInf(b)
       THEN (IsNegInf(a) /\ ~IsNegInf(b)) \/ (IsPosInf(b) /\ ~IsPosInf(a))
       ELSE BRLt(Val(a), Val(b))
Le(a, b) ==
    /\ ~IsNaN(a) /\ ~IsNaN(b)
    /\ IF IsInf(a) \/ IsInf(b)
       THEN IsNegInf(a) \/ IsPosInf(b)
       ELSE BRLe(Val(a), Val(b))
Gt(a, b) == Lt(b, a)
Ge(a, b) == Le(b, a)
NumEq(a, b) == Le(a, b) /\ Le(b, a)        \* IEEE ==  (so -0 = +0, NaN # NaN)

\* f64::max as Rust defines it for non-NaN operands (either zero may be returned for +-0)
MaxOf(a, b) == IF Lt(a, b) THEN b ELSE a

\* unit in the last place of a finite pattern: 2^(max(e,1) - 1075)
UlpExp(b) == (IF BExp(b) = 0 THEN 1 ELSE BExp(b)) - 1075
Ulp(b)    == BRPow2(UlpExp(b))

\* round to nearest even; result is a bit pattern
Fl(q) == BRToF64(q)

\* |Val(b) - q| <= n ulps of b   (b finite)
WithinUlps(b, q, n) == BRLe(BRAbs(BRSub(Val(b), q)), BRMul(BR(n), Ulp(b)))

\* correctly rounded, modulo the sign of a zero result
IsFlOf(b, q) == LET r == Fl(q) IN r = b \/ (IsZero(r) /\ IsZero(b))

Eps   == BRPow2(-52)     \* f64::EPSILON
U     == BRPow2(-53)     \* unit roundoff
=============================================================================
