------------------------------ MODULE MC_Approx -----------------------------
(***************************************************************************)
(* Consequences stated in C17, on small integer shapes: both relations are *)
(* reflexive, symmetric, implied by equality, monotone in the tolerance,   *)
(* falsified by perturbing any single number by more than the tolerance,   *)
(* and never hold across different shapes.                                 *)
(***************************************************************************)
EXTENDS Integers, Sequences, TLC

CONSTANTS MaxLen, V
VARIABLES a, b

IAbs(x) == IF x < 0 THEN -x ELSE x
IMax(x, y) == IF x < y THEN y ELSE x
AbsI(x, y, eps) == IAbs(x - y) <= eps
\* integer analogue of approx's scalar rule with max_relative = rel/4
RelI(x, y, eps, rel) == x = y \/ IAbs(x - y) <= eps \/ 4 * IAbs(x - y) <= IMax(IAbs(x), IAbs(y)) * rel

Ap == INSTANCE Approx WITH AbsS <- AbsI, RelS <- RelI

Vals == (-V)..V
Seqs == UNION { [1..n -> Vals] : n \in 0..MaxLen }
Shape(s) == << Len(s) >>

Init == a \in Seqs /\ b \in Seqs
Next == UNCHANGED << a, b >>

Tol == 0..2
Reflexive == \A e \in Tol : Ap!AbsEq(Shape(a), a, Shape(a), a, e) /\ Ap!RelEq(Shape(a), a, Shape(a), a, e, 1)
Symmetric == \A e \in Tol : /\ Ap!AbsEq(Shape(a), a, Shape(b), b, e) = Ap!AbsEq(Shape(b), b, Shape(a), a, e)
                            /\ Ap!RelEq(Shape(a), a, Shape(b), b, e, 1) = Ap!RelEq(Shape(b), b, Shape(a), a, e, 1)
ImpliedByEq == a = b => Ap!AbsEq(Shape(a), a, Shape(b), b, 0) /\ Ap!RelEq(Shape(a), a, Shape(b), b, 0, 0)
Monotone == \A e \in 0..1 : Ap!AbsEq(Shape(a), a, Shape(b), b, e) => Ap!AbsEq(Shape(a), a, Shape(b), b, e + 1)
ShapeMatters == Len(a) # Len(b) => \A e \in Tol : ~Ap!AbsEq(Shape(a), a, Shape(b), b, e) /\ ~Ap!RelEq(Shape(a), a, Shape(b), b, e, 1)
SinglePerturbation ==
    \A p \in 1..Len(a) : \A e \in Tol :
        LET c == [a EXCEPT ![p] = a[p] + e + 1] IN ~Ap!AbsEq(Shape(a), a, Shape(c), c, e)
=============================================================================
