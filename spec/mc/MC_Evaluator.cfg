CONSTANTS N = 4  M = 4  WithNaN = TRUE  Guard = TRUE  Emit = FALSE
INIT Init
NEXT Next
VIEW View
INVARIANTS Contract TypeOK I1 I2
ACTION_CONSTRAINT EmitEdge
CHECK_DEADLOCK FALSE
