--------------------------- MODULE MC_PolyAlgebra ---------------------------
(***************************************************************************)
(* Design-level facts of the polynomial algebra, exhaustively on a grid:   *)
(*  - Horner = sum of c_i x^i = the Estrin scheme as written in poly.rs,   *)
(*    for every degree 0..8 (transcription check of the nine evaluators),  *)
(*  - the pointwise meaning of scale / negate / add / translate (C14),     *)
(*  - Deriv is linear, maps x^k to k x^(k-1), and Deriv(Indef(c)) = c,     *)
(*    Eval(IntegralThrough(c,k), k.x) = k.y, F(b) - F(a) = exact integral  *)
(*    (C07, C08) -- over the rationals,                                    *)
(*  - the log-integral recurrences are antiderivative recurrences and the  *)
(*    quartic special form is one too (C09).                               *)
(* Coefficient vectors: every length 1..9, entries from Coef with at most  *)
(* MaxNZ non-zero lanes (unit vectors pin each monomial, pairs and triples *)
(* catch cross-lane mixing; the identities are polynomial in c of degree   *)
(* <= 2).  One state per (vector, x); no dynamics.  Each state also emits  *)
(* a REPLAY vector: the expected integer value at every grid x.            *)
(***************************************************************************)
EXTENDS Integers, Sequences, FiniteSets, TLC, Json, Rat

CONSTANTS MaxLen, MaxNZ, Emit
VARIABLES c

Coef == { -2, -1, 1, 3 }
Xs == -3..3

IAdd(a, b) == a + b
ISub(a, b) == a - b
IMul(a, b) == a * b
IDiv(a, b) == a \div b
INeg(a) == -a
ILeq(a, b) == a <= b
IId(a) == a
IFma(p, q, r) == p * q + r
RFma(p, q, r) == RAdd(RMul(p, q), r)
I == INSTANCE PolyAlgebra WITH Zero <- 0, One <- 1, Add <- IAdd, Sub <- ISub, Mul <- IMul, Div <- IDiv,
                               Neg <- INeg, Abs <- IAbs, Leq <- ILeq, FromInt <- IId, Fma <- IFma
R == INSTANCE PolyAlgebra WITH Zero <- RZero, One <- ROne, Add <- RAdd, Sub <- RSub, Mul <- RMul, Div <- RDiv,
                               Neg <- RNeg, Abs <- RAbs, Leq <- RLeq, FromInt <- RInt, Fma <- RFma

\* vectors of length n with support S
Vecs(n) == UNION { { [i \in 1..n |-> IF i \in S THEN f[i] ELSE 0] : f \in [S -> Coef] }
                   : S \in { T \in SUBSET (1..n) : Cardinality(T) <= MaxNZ /\ T # {} } } \cup { [i \in 1..n |-> 0] }

Init == c \in UNION { Vecs(n) : n \in 1..MaxLen }
Next == UNCHANGED c

ToRat(v) == [i \in 1..Len(v) |-> RInt(v[i])]
Shift(v) == [i \in 1..Len(v) |-> v[((i) % Len(v)) + 1]]   \* another vector of the same length

SchemesAgree == \A x \in Xs : I!Eval(c, x) = I!PowerSum(c, x) /\ I!Estrin(c, x) = I!PowerSum(c, x) /\ I!HornerFma(c, x) = I!PowerSum(c, x)

Pointwise ==
    \A x \in Xs : \A s \in { -1, 0, 2 } :
        /\ I!Eval(I!ScaleP(c, s), x) = s * I!Eval(c, x)
        /\ I!Eval(I!NegP(c), x) = -I!Eval(c, x)
        /\ I!Eval(I!AddP(c, Shift(c)), x) = I!Eval(c, x) + I!Eval(Shift(c), x)
        /\ I!Eval(I!SubP(c, Shift(c)), x) = I!Eval(c, x) - I!Eval(Shift(c), x)
        /\ I!Eval(I!TranslateP(c, s), x) = I!Eval(c, x) + s
EmptyTranslate == I!TranslateP(<< >>, 5) = << 5 >> /\ I!Eval(<< >>, 7) = 0

DerivFacts ==
    /\ I!Deriv(I!AddP(c, Shift(c))) = I!AddP(I!Deriv(c), I!Deriv(Shift(c)))
    /\ Len(I!Deriv(c)) = (IF Len(c) = 1 THEN 1 ELSE Len(c) - 1)
    /\ Len(c) = 1 => I!Deriv(c) = << 0 >>
    /\ \A k \in 1..Len(c) : (\A i \in 1..Len(c) : c[i] = (IF i = k THEN 1 ELSE 0)) =>
           \A i \in 1..Len(I!Deriv(c)) : I!Deriv(c)[i] = (IF i = k - 1 THEN k - 1 ELSE 0)

IntegralFacts ==
    Len(c) <= 8 =>
    LET rc == ToRat(c)  F == R!Indef(rc) IN
    /\ Len(F) = Len(c) + 1 /\ F[1] = RZero
    /\ R!Deriv(F) = rc
    /\ \A i \in 1..Len(c) : RMul(RInt(i), F[i + 1]) = rc[i]
    /\ \A kx \in { -2, 0, 3 } : \A ky \in { -1, 4 } :
           LET G == R!IntegralThrough(rc, RInt(kx), RInt(ky)) IN
           /\ R!Eval(G, RInt(kx)) = RInt(ky)
           /\ R!Deriv(G) = rc
           /\ \A a \in { -1, 2 } : RSub(R!Eval(G, RInt(a)), R!Eval(G, RInt(kx))) = R!DefInt(rc, RInt(kx), RInt(a))

LogFacts ==
    /\ LET q == I!LogIndef(c) IN Len(q) = Len(c) /\ I!QPlusDeriv(q) = c
    /\ Len(c) = 5 => LET f == R!QuarticIndef(ToRat(c)) IN R!QuarticDerivCoeffs(f) = R!Reflect(ToRat(c))

EmitCase ==
    Emit => PrintT(<< "REPLAY", ToJson([c |-> c, xs |-> [k \in 1..7 |-> k - 4],
                                        ys |-> [k \in 1..7 |-> I!Eval(c, k - 4)],
                                        d |-> I!Deriv(c), q |-> I!LogIndef(c)]) >>)
=============================================================================
