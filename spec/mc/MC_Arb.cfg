CONSTANTS L = 3  K = 3  Emit = FALSE
INIT Init
NEXT Next
INVARIANTS Contract EmitCase
CHECK_DEADLOCK FALSE
