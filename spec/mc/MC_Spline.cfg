CONSTANTS K = 4  X = 4  Y = 3  Off = 0  Emit = FALSE
INIT Init
NEXT Next
INVARIANTS C04 C05 EmitCase
CHECK_DEADLOCK FALSE
