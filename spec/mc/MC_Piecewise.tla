---------------------------- MODULE MC_Piecewise ----------------------------
(***************************************************************************)
(* C02 exhaustively over the abstract order: every non-decreasing list of  *)
(* up to N ends over M even ranks, every argument rank (and NaN).  There   *)
(* is no dynamics: one state per list; the invariants quantify over x.     *)
(***************************************************************************)
EXTENDS Ranks, TLC, Json

CONSTANTS N, M, Emit
VARIABLES ends

P == INSTANCE Piecewise WITH Lt <- RLt, Le <- RLe, IsNaN <- RIsNaN

Args == ArgRanks(M) \cup { NaNV }
ArgSeq == [k \in 1..(2 * M + 2) |-> IF k = 2 * M + 2 THEN NaNV ELSE k - 2]

Init == ends \in WFLists(EndRanks(M), N)
Next == UNCHANGED ends

ScanAgrees  == \A x \in Args : P!Select(ends, x) = P!SelectScan(ends, x)
HalfOpen    == \A x \in Args : P!HalfOpen(ends, x)
GoesRight   == P!BreakpointGoesRight(ends)
NoZeroWidth == \A x \in Args : P!NoZeroWidth(ends, x)
FirstLast   == /\ P!Select(ends, -1) = (IF ends[1] > -1 THEN 1 ELSE 0) \* ranks start at 0: below all
               /\ P!Select(ends, 2 * M - 1) = Len(ends)
               /\ P!Select(ends, NaNV) = Len(ends)
WF          == P!WellFormed(ends)

EmitCase ==
    Emit => PrintT(<< "REPLAY", ToJson([ends |-> ends, xs |-> ArgSeq,
                                        sel |-> [k \in 1..Len(ArgSeq) |-> P!Select(ends, ArgSeq[k])]]) >>)
=============================================================================
