CONSTANTS L = 3  X = 4  Y = 2  Emit = FALSE
INIT Init
NEXT Next
INVARIANTS OnePerPair EndsRunMax NonDecr ThroughKnots Interp AtKnots EmitDone
CHECK_DEADLOCK FALSE
