CONSTANTS N = 3  M = 3  Emit = FALSE
INIT Init
NEXT Next
INVARIANTS SameShape ThroughKnot ZeroConst Continuous Antideriv TrueIntegral Indefinite EmitDone
CHECK_DEADLOCK FALSE
