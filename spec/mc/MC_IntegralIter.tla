--------------------------- MODULE MC_IntegralIter --------------------------
(***************************************************************************)
(* Piecewise integration over exact rationals: every well-formed list of   *)
(* up to N pieces over M integer breakpoints (duplicates in), pieces of    *)
(* degree <= 2 from a small coefficient set, knots on the grid (left of,   *)
(* inside, at the end of and beyond the first piece), evaluation points on *)
(* the half-integer grid.  All clauses of C11 hold exactly.                *)
(* The coefficient set keeps every antiderivative integral (c_i divisible  *)
(* by i+1), so the same cases replay bit-exactly on f64.                   *)
(***************************************************************************)
EXTENDS Integers, Sequences, TLC, Json, Rat

CONSTANTS N, M, Emit
VARIABLES ends, pieces, mode, k0, i, knot, out

I == INSTANCE IntegralIter WITH Zero <- RZero, One <- ROne, Add <- RAdd, Sub <- RSub, Mul <- RMul, Div <- RDiv,
                                 Neg <- RNeg, Abs <- RAbs, Leq <- RLeq, FromInt <- RInt

IntVecs == { << 1 >>, << -2, 2 >>, << 0, 4, 3 >>, << 3, 0, -6 >>, << 1, -2 >> }
ToR(v) == [j \in 1..Len(v) |-> RInt(v[j])]
Ends(n) == { q \in [1..n -> 0..(M - 1)] : \A j \in 1..(n - 1) : q[j] <= q[j + 1] }

Init ==
    \E n \in 1..N : \E e \in Ends(n) : \E ps \in [1..n -> IntVecs] :
        LET re == [j \in 1..n |-> RInt(e[j])]  rp == [j \in 1..n |-> ToR(ps[j])] IN
        \/ \E kx \in { -1, 0, 1, M } : \E ky \in { 0, 2 } :
              /\ ends = re /\ pieces = rp /\ mode = "integral" /\ k0 = << RInt(kx), RInt(ky) >> /\ i = 1 /\ knot = k0 /\ out = << >>
        \/ LET F1 == I!A!Indef(rp[1]) IN
              /\ ends = re /\ pieces = rp /\ mode = "indefinite" /\ k0 = << RZero, RZero >> /\ i = 2
              /\ knot = << re[1], I!A!Eval(F1, re[1]) >> /\ out = << F1 >>

Next == I!Step

Ts == { RFrac(t, 2) : t \in (-2)..(2 * M) }

SameShape   == I!SameShape
ThroughKnot == I!ThroughKnot
ZeroConst   == I!ZeroConst
Continuous  == I!Continuous
Antideriv   == I!Antideriv
TrueIntegral == \A t \in Ts : I!TrueIntegralAt(t)
Indefinite  == \A s \in { RInt(0), RFrac(3, 2) } : \A t \in Ts : I!IndefiniteAt(s, t)

AsInt(r) == IF r[2] = 1 THEN r[1] ELSE Assert(FALSE, "non-integer in replay vector")
EmitDone ==
    (Emit /\ I!Done) => PrintT(<< "REPLAY", ToJson([
        ends |-> [j \in 1..Len(ends) |-> AsInt(ends[j])],
        pieces |-> [j \in 1..Len(pieces) |-> [m \in 1..Len(pieces[j]) |-> AsInt(pieces[j][m])]],
        indef |-> mode = "indefinite",
        k0 |-> << AsInt(k0[1]), AsInt(k0[2]) >>,
        out |-> [j \in 1..Len(out) |-> [m \in 1..Len(out[j]) |-> AsInt(out[j][m])]] ]) >>)
=============================================================================
