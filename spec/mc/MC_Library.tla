----------------------------- MODULE MC_Library -----------------------------
(***************************************************************************)
(* Sessions of the whole API over exact rationals: every operation         *)
(* sequence of length <= Depth from a family of small piecewise objects    *)
(* (1..N pieces of degree 1 over breakpoints 0..2, duplicates in), with    *)
(* evaluator handles and evaluate_v batches interleaved.                   *)
(***************************************************************************)
EXTENDS Integers, Sequences, TLC, Json, Rat

CONSTANTS N, Depth, Emit,
          Kind      \* "poly": two-lane pieces (degree 1), every operation (the design-level model);
                    \* "q": six-lane pieces as IntOfLogPoly4 has them, no derivative and no integral -- the only
                    \* shipped piece type the library can add and subtract, so + and - can be replayed on it
VARIABLES ends, pieces, handle, off, last, vprev, vlast, lastop, before,
          hist      \* the operations so far (hidden by the VIEW): one representative script per reachable state

L == INSTANCE Library WITH Zero <- RZero, One <- ROne, Add <- RAdd, Sub <- RSub, Mul <- RMul, Div <- RDiv,
                           Neg <- RNeg, Abs <- RAbs, Leq <- RLeq, FromInt <- RInt, MaxDeg <- 3

Pad(v) == IF Kind = "q" THEN v \o << RInt(1), RInt(0), RFrac(-1, 2), RInt(2) >> ELSE v
Vecs == { Pad(v) : v \in { << RInt(1), RInt(2) >>, << RInt(-2), RInt(0) >>, << RInt(0), RInt(3) >> } }
EndLists(n) == { q \in [1..n -> { RInt(0), RInt(1), RInt(2) }] : \A j \in 1..(n - 1) : RLeq(q[j], q[j + 1]) }
Objects == UNION { { [ends |-> e, pieces |-> p] : e \in EndLists(n), p \in [1..n -> Vecs] } : n \in 1..N }
\* operands for + and -: one single-piece and one two-piece function
G == { [ends |-> << RInt(1) >>, pieces |-> << Pad(<< RInt(1), RInt(1) >>) >>],
       [ends |-> << RInt(0), RInt(2) >>, pieces |-> << Pad(<< RInt(2), RInt(-1) >>), Pad(<< RInt(0), RInt(1) >>) >>] }
Xs == { RFrac(t, 2) : t \in (-1)..5 }

Init ==
    \E o \in Objects :
        /\ ends = o.ends /\ pieces = o.pieces /\ handle = "none" /\ off = 0 /\ last = o.ends[1] /\ vprev = 0 /\ vlast = << >>
        /\ lastop = [op |-> "init"] /\ before = o
        /\ hist = << [op |-> "create", ends |-> o.ends, pieces |-> o.pieces] >>

Step ==
    \/ \E s \in { RInt(-1), RInt(2) } : L!Scale(s)
    \/ L!Negate
    \/ L!Translate(RInt(3))
    \/ (Kind = "poly" /\ L!Derive)
    \/ (Kind = "poly" /\ \E k \in { << RInt(0), RInt(1) >>, << RInt(-1), RInt(0) >> } : L!Integrate(k[1], k[2]))
    \/ \E g \in G : \E sub \in BOOLEAN : L!Combine(g, sub)
    \/ \E i \in 1..Len(ends) : \E e \in { RInt(0), RInt(1), RInt(2) } : L!EditEnd(i, e)
    \/ L!PopPiece
    \/ \E x \in Xs : L!Evaluate(x)
    \/ L!NewHandle \/ L!DropHandle
    \/ \E x \in Xs : L!HandleQuery(x)
    \/ L!BatchStart \/ L!BatchEnd
    \/ \E x \in Xs : L!BatchFeed(x)
Next == Step /\ hist' = Append(hist, lastop')

View == << ends, pieces, handle, off, last, vprev, vlast, lastop, before >>
\* spec -> impl: one script per state of the last level; `vh replay-events lib` runs it through the real code and
\* logs ordinary `lib` events, so Trace_Library judges the model's own behaviours as executed by the implementation
EmitScript == (Emit /\ TLCGet("level") = Depth) => PrintT(<< "REPLAY", ToJson([kind |-> Kind, ops |-> hist]) >>)

Bound == TLCGet("level") <= Depth

WellFormed == L!WellFormed
EndsPreserved == L!EndsPreserved
EndsFromOperands == L!EndsFromOperands
Meaning == \A x \in Xs : L!MeaningAt(x)
DegreeBookkeeping == L!DegreeBookkeeping
IntegralFacts == L!IntegralFacts
PathsAgree == L!PathsAgree
\* the borrow: while a handle or a batch lives, the object is what it was when the borrow began
Borrow == (handle = "live" \/ vprev > 0) => lastop.op \in { "new", "query", "drop", "vstart", "vnext", "vend", "eval" }
\* an in-place edit leaves the pieces it does not remove untouched, and evaluation afterwards is Select on the NEW ends
EditFacts ==
    /\ lastop.op = "editend" => (pieces = before.pieces /\ Len(ends) = Len(before.ends)
                                  /\ \A j \in 1..Len(ends) : j # lastop.i => ends[j] = before.ends[j])
    /\ lastop.op = "pop" => (Len(ends) = Len(before.ends) - 1 /\ \A j \in 1..Len(ends) : ends[j] = before.ends[j] /\ pieces[j] = before.pieces[j])
=============================================================================
