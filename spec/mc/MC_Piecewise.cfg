CONSTANTS N = 4  M = 4  Emit = FALSE
INIT Init
NEXT Next
INVARIANTS ScanAgrees HalfOpen GoesRight NoZeroWidth FirstLast WF EmitCase
CHECK_DEADLOCK FALSE
