CONSTANTS N = 4  M = 4  Emit = FALSE
INIT Init
NEXT Next
VIEW View
INVARIANTS ContractA ContractB Lazy TypeOK
ACTION_CONSTRAINT EmitEdge
CHECK_DEADLOCK FALSE
