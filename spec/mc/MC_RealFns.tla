----------------------------- MODULE MC_RealFns -----------------------------
(***************************************************************************)
(* Sanity of the transcendental layer (RealFns.tla), as ASSUME-checked     *)
(* functional identities on a grid of rationals: no state space.           *)
(*   ln 1 = 0, ln(2q) = ln q + ln 2, ln(q r) = ln q + ln r, monotone;      *)
(*   R_5 recurrence R(x) = 1/120 + x R_6(x) through e^x:                   *)
(*   x^5 R(x) + P4(x) = e^x, with e^(x+y) = e^x e^y and e^(ln q) = q;      *)
(*   the series and the closed form of R agree where both apply.           *)
(***************************************************************************)
EXTENDS RealFns, TLC

VARIABLE dummy
Init == dummy = 0
Next == UNCHANGED dummy

Close(a, b) == BRLe(BRAbs(BRSub(a, b)), BRMul(BRPow2(-200), BRAdd(BROne, BRAbs(a))))
Qs == { BRFrac(1, 3), BRFrac(7, 5), BR(10), BRPow2(-1074), BRPow2(1000), BRAdd(BROne, BRPow2(-52)), BRFrac(999, 1000) }
Xs == { BRFrac(-745, 1), BR(-40), BRFrac(-17, 2), BR(-8), BRFrac(-171, 100), BRFrac(-1, 3), BRZero, BRPow2(-60),
        BRFrac(43, 25), BR(2), BR(8), BRFrac(33, 4), BR(40), BR(700) }

LnFacts ==
    /\ LnApprox(BROne) = BRZero
    /\ \A q \in Qs : Close(LnApprox(BRMul(BR(2), q)), BRAdd(LnApprox(q), Ln2))
    /\ \A q \in Qs : \A r \in { BRFrac(3, 7), BR(5) } : Close(LnApprox(BRMul(q, r)), BRAdd(LnApprox(q), LnApprox(r)))
    /\ \A q \in Qs : BRLt(LnApprox(q), LnApprox(BRMul(q, BRFrac(1001, 1000))))
    /\ \A q \in { BRFrac(1, 3), BRFrac(7, 5), BR(10) } : Close(Exp(LnApprox(q)), q)

ExpFacts ==
    /\ ExpTail(BRZero) = BRFrac(1, 120)
    /\ \A x \in Xs : BRGt(ExpTail(x), BRZero)
    /\ \A x \in { BRFrac(-1, 3), BR(2), BR(-8), BR(8) } : Close(ExpTailSeries(x),
            IF x = BRZero THEN BRFrac(1, 120) ELSE BRDiv(BRSub(ExpBig(x), P4(x)), BRMul(BRMul(BRMul(x, x), BRMul(x, x)), x)))
    /\ \A x \in { BR(9), BR(12), BR(-9), BR(-15) } : Close(ExpTailSeries(x), ExpTail(x))
    /\ \A x \in { BR(1), BR(-3), BRFrac(17, 2) } : \A y \in { BR(2), BRFrac(-1, 2) } : Close(Exp(BRAdd(x, y)), BRMul(Exp(x), Exp(y)))
    /\ \A x \in Xs : \A y \in Xs : BRLt(x, y) => BRLt(ExpTail(x), ExpTail(y))       \* R is increasing

ASSUME LnFacts
ASSUME ExpFacts
=============================================================================
