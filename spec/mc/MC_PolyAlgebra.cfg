CONSTANTS MaxLen = 9  MaxNZ = 2  Emit = FALSE
INIT Init
NEXT Next
INVARIANTS SchemesAgree Pointwise EmptyTranslate DerivFacts IntegralFacts LogFacts EmitCase
CHECK_DEADLOCK FALSE
