------------------------------- MODULE MC_Arb -------------------------------
(***************************************************************************)
(* Arbitrary for Piecewise over abstract float classes:                    *)
(*   -1 NaN, -2 +inf, -3 -inf, -4 zero, -5 subnormal, 0..K-1 normal ranks  *)
(* Pipeline: decoded list -> validate -> sort -> draw one piece per end.   *)
(* `short` models the byte string running out while pieces are drawn: the  *)
(* element generators of `arbitrary` pad with zeros and never fail, so     *)
(* drawing succeeds regardless.                                            *)
(***************************************************************************)
EXTENDS Integers, Sequences, FiniteSets, TLC, Json

CONSTANTS L, K, Emit
VARIABLES decoded, pc, ends, outcome, short

Classes == { -1, -2, -3, -4, -5 } \cup (0..(K - 1))
CIsNaN(c) == c = -1
CIsNormal(c) == c >= 0
\* total order on non-NaN classes: -inf < normal ranks (subnormal/zero in between) < +inf
Key(c) == IF c = -3 THEN -100 ELSE IF c = -2 THEN 100 ELSE IF c = -4 THEN 0 ELSE IF c = -5 THEN 0 ELSE c + 1
CLt(a, b) == ~CIsNaN(a) /\ ~CIsNaN(b) /\ Key(a) < Key(b)
CLe(a, b) == ~CIsNaN(a) /\ ~CIsNaN(b) /\ Key(a) <= Key(b)

A == INSTANCE Arb WITH Lt <- CLt, Le <- CLe, IsNaN <- CIsNaN, IsNormal <- CIsNormal

Lists == UNION { [1..n -> Classes] : n \in 0..L }

Init == /\ decoded \in Lists /\ short \in BOOLEAN
        /\ pc = "validate" /\ ends = << >> /\ outcome = "none"

Validate ==
    /\ pc = "validate"
    /\ IF decoded = << >> \/ \E k \in 1..Len(decoded) : ~CIsNormal(decoded[k])
       THEN pc' = "done" /\ outcome' = "err" /\ UNCHANGED ends
       ELSE pc' = "sort" /\ UNCHANGED << outcome, ends >>
    /\ UNCHANGED << decoded, short >>

\* sort_by(partial_cmp().unwrap()): all values are normal here, so unwrap cannot fail
Sort ==
    /\ pc = "sort"
    /\ \E s \in [1..Len(decoded) -> Classes] :
          /\ A!IsPerm(s, decoded) /\ A!Sorted(s)
          /\ ends' = s
    /\ pc' = "draw"
    /\ UNCHANGED << decoded, outcome, short >>

Draw ==
    /\ pc = "draw"
    /\ pc' = "done" /\ outcome' = "ok"       \* T::arbitrary(u)? for fixed-size T never fails
    /\ UNCHANGED << decoded, ends, short >>

Next == Validate \/ Sort \/ Draw

Contract == pc = "done" => A!Contract(decoded, outcome, ends)
EmitCase == (Emit /\ pc = "validate" /\ ~short) => PrintT(<< "REPLAY", ToJson([classes |-> decoded]) >>)
=============================================================================
