---------------------------- MODULE MC_Evaluator ----------------------------
(***************************************************************************)
(* Exhaustive model of the evaluator cursor: every well-formed list of up  *)
(* to N segments over M breakpoint ranks, every query rank (and NaN when   *)
(* WithNaN), histories of unbounded length -- the state graph closes, so   *)
(* the fixpoint is the quantifier over histories.                          *)
(*                                                                         *)
(* hist is the shortest query history that reaches the state (kept out of  *)
(* the fingerprint by VIEW); the action constraint prints one REPLAY line  *)
(* per transition so the harness can drive every edge of the graph through *)
(* the real PiecewiseEvaluator.                                            *)
(***************************************************************************)
EXTENDS Ranks, TLC, Json

CONSTANTS N, M, WithNaN, Guard, Emit

VARIABLES ends, off, last, sel, arg, hist

E == INSTANCE Evaluator WITH Lt <- RLt, Le <- RLe, IsNaN <- RIsNaN, NaNGuard <- Guard

Args == ArgRanks(M) \cup (IF WithNaN THEN { NaNV } ELSE {})

Init ==
    /\ ends \in WFLists(EndRanks(M), N)
    /\ off = 0 /\ last = ends[1] /\ sel = 0 /\ arg = ends[1]
    /\ hist = << >>

Next ==
    \E x \in Args :
        /\ E!Query(x)
        /\ hist' = Append(hist, x)

View == << ends, off, last, sel, arg >>

\* one line per transition of the (view-)state graph
EmitEdge ==
    Emit => PrintT(<< "REPLAY", ToJson([ends |-> ends, hist |-> hist, x |-> hist'[Len(hist')],
                                        sel |-> sel', off |-> off', last |-> last']) >>)

Contract == E!Contract
TypeOK   == E!TypeOK
I1       == E!I1
I2       == E!I2
=============================================================================
