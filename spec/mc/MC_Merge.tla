------------------------------ MODULE MC_Merge ------------------------------
(***************************************************************************)
(* The +/- merge loop on every pair of well-formed lists of up to N pieces *)
(* over M even ranks (WithNaN adds lists containing a NaN end, to check    *)
(* that the only panics are the documented ones).                          *)
(***************************************************************************)
EXTENDS Ranks, TLC, Json

CONSTANTS N, M, WithNaN, Emit
VARIABLES fe, ge, i, j, res, pc

G == INSTANCE Merge WITH Lt <- RLt, Le <- RLe, IsNaN <- RIsNaN

Lists == WFLists(EndRanks(M), N)
\* a few ill-formed operands: one NaN end at some position of a short list
NaNLists == IF WithNaN
            THEN { [q EXCEPT ![k] = NaNV] : q \in WFLists(EndRanks(2), 2), k \in 1..2 } \cap
                 { q \in Seq(Int) : \E k \in 1..Len(q) : q[k] = NaNV }
            ELSE {}

Init ==
    \E f \in Lists \cup NaNLists, g \in Lists \cup NaNLists :
        /\ fe = f /\ ge = g /\ i = 1 /\ j = 1 /\ res = << >> /\ pc = "loop"

Next == G!Step

Args == ArgRanks(M)

InBounds  == G!InBounds
Pointwise == pc = "done" => \A x \in Args : G!PointwiseAt(x)
ShapeOK   == pc = "done" => G!ShapeOK
PanicDoc  == G!PanicOnlyDocumented
\* the loop consumes a breakpoint per iteration: at most Len f + Len g - 1 iterations
Bounded   == Len(res) <= Len(fe) + Len(ge) - 1

EmitDone ==
    (Emit /\ pc = "done") => PrintT(<< "REPLAY", ToJson([f |-> fe, g |-> ge, res |-> res]) >>)

\* liveness: the loop terminates (checked without a state constraint)
Spec == Init /\ [][Next]_G!vars /\ WF_G!vars(Next)
Terminates == <>(pc \in { "done", "panic" })
=============================================================================
