------------------------------- MODULE Ranks --------------------------------
(***************************************************************************)
(* Abstract ordered domain for the exhaustive models: integer ranks plus   *)
(* one NaN element whose comparisons are all FALSE.  Breakpoints take even *)
(* ranks 0,2,..,2(M-1); arguments take every rank -1..2M-1, i.e. below,    *)
(* on, between and above every breakpoint (the extreme ranks stand for     *)
(* -inf / +inf under the "extremes" embedding used by the replay).         *)
(***************************************************************************)
EXTENDS Integers, Sequences

NaNV == -1000

RIsNaN(a) == a = NaNV
RLt(a, b) == a # NaNV /\ b # NaNV /\ a < b
RLe(a, b) == a # NaNV /\ b # NaNV /\ a <= b

EndRanks(M) == { 2 * k : k \in 0..(M - 1) }
ArgRanks(M) == (-1)..(2 * M - 1)

\* all non-decreasing sequences of length 1..N over the set S of integers
WFLists(S, N) ==
    UNION { { q \in [1..n -> S] : \A i \in 1..(n - 1) : q[i] <= q[i + 1] } : n \in 1..N }
=============================================================================
