CONSTANTS N = 3  M = 4  WithNaN = TRUE  Emit = FALSE
SPECIFICATION Spec
INVARIANTS InBounds Pointwise ShapeOK PanicDoc Bounded EmitDone
PROPERTIES Terminates
CHECK_DEADLOCK FALSE
