------------------------------ MODULE MC_Linear -----------------------------
(***************************************************************************)
(* linear() over exact rationals: every sequence of 2..L knots with        *)
(* abscissae in 0..X (repeated and out-of-order included) and ordinates in *)
(* 0..Y; Eps = 2 grid units, so gaps of 1 are positive but narrower than   *)
(* Eps.  Evaluation points on the half-integer grid.                       *)
(***************************************************************************)
EXTENDS Integers, Sequences, TLC, Json, Rat

CONSTANTS L, X, Y, Emit
VARIABLES knots, i, prev, out

Lin == INSTANCE Linear WITH Zero <- RZero, One <- ROne, Add <- RAdd, Sub <- RSub, Mul <- RMul, Div <- RDiv,
                            Neg <- RNeg, Abs <- RAbs, Leq <- RLeq, FromInt <- RInt, Eps <- RInt(2)

KnotSeqs == UNION { [1..n -> { << RInt(x), RInt(y) >> : x \in 0..X, y \in 0..Y }] : n \in 2..L }

Init == \E ks \in KnotSeqs : knots = ks /\ i = 2 /\ prev = ks[1] /\ out = << >>
Next == Lin!Step

Ts == { RFrac(t, 2) : t \in (-2)..(2 * X + 2) }

OnePerPair == Lin!OnePerPair
EndsRunMax == Lin!EndsRunMax
NonDecr == Lin!NonDecr
ThroughKnots == Lin!ThroughKnots
Interp == \A t \in Ts : Lin!InterpAt(t)
AtKnots == Lin!AtKnots

EmitDone ==
    (Emit /\ Lin!Done) => PrintT(<< "REPLAY", ToJson([
        knots |-> [j \in 1..Len(knots) |-> << knots[j][1][1], knots[j][2][1] >>],
        ends |-> [j \in 1..Len(out) |-> out[j][1][1]],
        narrow |-> [j \in 1..Len(out) |-> out[j][2][2] = RZero /\ RLt(RSub(out[j][1], IF j = 1 THEN knots[1][1] ELSE out[j - 1][1]), RInt(2))],
        c |-> [j \in 1..Len(out) |-> << out[j][2][1], out[j][2][2] >>] ]) >>)
=============================================================================
