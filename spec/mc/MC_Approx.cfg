CONSTANTS MaxLen = 3  V = 2
INIT Init
NEXT Next
INVARIANTS Reflexive Symmetric ImpliedByEq Monotone ShapeMatters SinglePerturbation
CHECK_DEADLOCK FALSE
