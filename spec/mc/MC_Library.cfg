CONSTANTS N = 2  Depth = 4  Emit = FALSE
INIT Init
NEXT Next
CONSTRAINT Bound
INVARIANTS WellFormed EndsPreserved EndsFromOperands Meaning DegreeBookkeeping IntegralFacts PathsAgree Borrow
CHECK_DEADLOCK FALSE
