CONSTANTS N = 2  Depth = 4  Emit = FALSE  Kind = "poly"
INIT Init
NEXT Next
VIEW View
CONSTRAINT Bound
INVARIANTS WellFormed EndsPreserved EndsFromOperands Meaning DegreeBookkeeping IntegralFacts PathsAgree Borrow EditFacts EmitScript
CHECK_DEADLOCK FALSE
