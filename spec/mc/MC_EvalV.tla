------------------------------ MODULE MC_EvalV ------------------------------
(***************************************************************************)
(* evaluate_v's cursor over the abstract order, histories of any length    *)
(* (the graph over (ends, prev, runmax) closes).  fed/pulled/yielded are   *)
(* unbounded counters, so they are abstracted to "0 or more" in the VIEW.  *)
(***************************************************************************)
EXTENDS Ranks, TLC, Json

CONSTANTS N, M, Emit
VARIABLES ends, prev, runmax, fed, pulled, yielded, sel, arg, hist, sels

V == INSTANCE EvalV WITH Lt <- RLt, Le <- RLe, IsNaN <- RIsNaN

Args == ArgRanks(M)

Init ==
    /\ ends \in WFLists(EndRanks(M), N)
    /\ prev = 1 /\ runmax = ends[1] /\ fed = 0 /\ pulled = 0 /\ yielded = 0
    /\ sel = 0 /\ arg = ends[1] /\ hist = << >> /\ sels = << >>

Next ==
    \E x \in Args :
        /\ V!Feed(x)
        /\ hist' = Append(hist, x)
        /\ sels' = Append(sels, sel')

View == << ends, prev, IF fed = 0 THEN -5 ELSE runmax, fed > 0, sel, arg >>

ContractB == V!ContractB
Lazy      == V!Lazy
TypeOK    == V!TypeOK
\* (a): on a non-decreasing history the piece is the one direct evaluation selects
NonDecr(h) == \A k \in 1..(Len(h) - 1) : h[k] <= h[k + 1]
ContractA == (fed > 0 /\ NonDecr(hist)) => sel = V!P!Select(ends, arg)

EmitEdge ==
    Emit => PrintT(<< "REPLAY", ToJson([ends |-> ends, hist |-> hist, x |-> arg', sels |-> sels']) >>)
=============================================================================
