------------------------------ MODULE MC_Spline -----------------------------
(***************************************************************************)
(* The constrained spline over exact rationals on a grid of knot sets:     *)
(* 3..K knots, strictly increasing abscissae in Off..Off+X, ordinates in   *)
(* 0..Y (monotone, oscillating, plateaued, collinear all occur).  C04 and  *)
(* C05 hold with zero tolerance: the design-level statement.               *)
(***************************************************************************)
EXTENDS Integers, Sequences, TLC, Json, Rat

CONSTANTS K, X, Y, Off, Emit
VARIABLES ks

S == INSTANCE Spline WITH Zero <- RZero, One <- ROne, Add <- RAdd, Sub <- RSub, Mul <- RMul, Div <- RDiv,
                          Neg <- RNeg, Abs <- RAbs, Leq <- RLeq, FromInt <- RInt

KnotSets == UNION { { q \in [1..n -> ((Off..(Off + X)) \X (0..Y))] : \A j \in 1..(n - 1) : q[j][1] < q[j + 1][1] } : n \in 3..K }

Init == \E q \in KnotSets : ks = [j \in 1..Len(q) |-> << RInt(q[j][1]), RInt(q[j][2]) >>]
Next == UNCHANGED ks

C04 == S!C04(ks, S!Spline(ks))
C05 == S!C05(ks, S!Spline(ks))

EmitCase ==
    Emit => PrintT(<< "REPLAY", ToJson([knots |-> [j \in 1..Len(ks) |-> << ks[j][1][1], ks[j][2][1] >>],
                                        slopes |-> S!Slopes(ks),
                                        coef |-> [j \in 1..(Len(ks) - 1) |-> S!Spline(ks)[j][2]]]) >>)
=============================================================================
