----------------------------- MODULE Trace_Calib ----------------------------
(***************************************************************************)
(* Calibration of the trusted arithmetic layer against the hardware: for   *)
(* logged operands a, b, c the correctly rounded a+c, a*b, a/b, fma(a,b,c) *)
(* computed from exact rationals (Val, Fl) must be the bits the FPU        *)
(* produced.  A mismatch is a defect of the verification machinery, hence  *)
(* the "harness:" label (tool error, never a verdict).                     *)
(***************************************************************************)
EXTENDS TraceBase, F64

TraceInit == TallyInit /\ l = 1

Same(bits, q) == IsFinite(bits) /\ IsFlOf(bits, q)

TraceCalib ==
    /\ IsEvent("calib")
    /\ LET e == Rec[l]  a == Val(e.a)  b == Val(e.b)  c == Val(e.c) IN
       /\ Judge(~IsFinite(e.add) \/ Same(e.add, BRAdd(a, c)), "harness: calibration add")
       /\ Judge(~IsFinite(e.mul) \/ Same(e.mul, BRMul(a, b)), "harness: calibration mul")
       /\ Judge(~IsFinite(e.div) \/ Same(e.div, BRDiv(a, b)), "harness: calibration div")
       /\ Judge(~IsFinite(e.fma) \/ Same(e.fma, BRAdd(BRMul(a, b), c)), "harness: calibration fma")
       \* overflow must round to infinity in the model as well
       /\ Judge(IsFinite(e.mul) \/ IsInf(Fl(BRMul(a, b))), "harness: calibration overflow")

TraceNext == TraceCalib
=============================================================================
