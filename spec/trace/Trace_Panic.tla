----------------------------- MODULE Trace_Panic ----------------------------
(***************************************************************************)
(* C16, outcome part: every public operation, run under catch_unwind on    *)
(* well-formed finite input, returns; the only panics are the documented   *)
(* rejections (Library!DocumentedReject).  Events                          *)
(*   call {op, n, m, nan, wf, panic}                                       *)
(* wf: the harness built well-formed finite input for this call (the       *)
(* documented-reject inputs are driven too, with wf = FALSE, to keep       *)
(* DocumentedReject honest: those must panic, which is reported as DRIFT   *)
(* if they do not -- the library may legitimately become more lenient).    *)
(* Tallies: 11 calls on well-formed input, 12 documented-reject calls.     *)
(***************************************************************************)
EXTENDS TraceBase, Outcomes

TraceInit == TallyInit /\ l = 1

TraceCall ==
    /\ IsEvent("call")
    /\ LET e == Rec[l]  doc == DocumentedReject(e.op, e.n, e.m, e.nan) IN
       /\ Tally(11, e.wf) /\ Tally(12, doc)
       /\ Judge(e.wf => ~doc, "harness: well-formed input classified as a documented rejection")
       /\ Judge(e.panic => doc, "panic on input that is not a documented rejection")
       /\ Drift(doc => e.panic, "a documented rejection no longer panics")

TraceNext == TraceCall
=============================================================================
