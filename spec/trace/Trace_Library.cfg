CONSTANTS Strict = FALSE  Scope = {"scalar", "derive", "integrate", "combine", "eval", "query", "vnext"}
INIT TraceInit
NEXT TraceNext
POSTCONDITION AllConsumed
CHECK_DEADLOCK FALSE
