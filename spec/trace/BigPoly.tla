------------------------------- MODULE BigPoly ------------------------------
(***************************************************************************)
(* PolyAlgebra over exact unbounded rationals, plus the decoding of f64    *)
(* coefficient vectors and the scope / exactness predicates of C01.        *)
(***************************************************************************)
EXTENDS Integers, Sequences, TLC, F64, RealFns

BRFma(fa, fb, fc) == BRAdd(BRMul(fa, fb), fc)
B == INSTANCE PolyAlgebra WITH Zero <- BRZero, One <- BROne, Add <- BRAdd, Sub <- BRSub, Mul <- BRMul,
                               Div <- BRDiv, Neg <- BRNeg, Abs <- BRAbs, Leq <- BRLe, FromInt <- BR, Fma <- BRFma

\* The IEEE instance of the same algebra: numbers are f64 bit patterns, every operation rounds once, the fused
\* multiply-add rounds once.  FP!Estrin / FP!HornerFma are then bit-exact models of Poly0..8::evaluate and
\* PolyN::evaluate as written in src/poly.rs -- the implementation-shaped side of C01 (a mismatch is DRIFT:
\* the contract is the scheme-independent bound).
FPAdd(a, b) == Fl(BRAdd(Val(a), Val(b)))
FPSub(a, b) == Fl(BRSub(Val(a), Val(b)))
FPMul(a, b) == Fl(BRMul(Val(a), Val(b)))
FPDiv(a, b) == Fl(BRDiv(Val(a), Val(b)))
FPNeg(a) == Fl(BRNeg(Val(a)))
FPAbs(a) == Fl(BRAbs(Val(a)))
FPLeq(a, b) == BRLe(Val(a), Val(b))
FPInt(i) == Fl(BR(i))
FPFma(a, b, c) == Fl(BRAdd(BRMul(Val(a), Val(b)), Val(c)))
FP == INSTANCE PolyAlgebra WITH Zero <- PosZero, One <- OneBits, Add <- FPAdd, Sub <- FPSub, Mul <- FPMul, Div <- FPDiv,
                                Neg <- FPNeg, Abs <- FPAbs, Leq <- FPLeq, FromInt <- FPInt, Fma <- FPFma

Vals(cb) == [i \in 1..Len(cb) |-> Val(cb[i])]
AllFinite(cb) == \A i \in 1..Len(cb) : IsFinite(cb[i])

\* magnitudes stay well inside the normal range: the properties exclude overflow/underflow
Big   == BRPow2(1000)
Small == BRPow2(-1000)
InRange(q) == q = BRZero \/ (BRLe(Small, BRAbs(q)) /\ BRLe(BRAbs(q), Big))

RECURSIVE PowersInRange(_, _, _)
PowersInRange(ax, pw, k) == k = 0 \/ (InRange(pw) /\ PowersInRange(ax, BRMul(pw, ax), k - 1))

\* every partial term |c_i||x|^i, and every power of x a scheme may form, is in range
TermsInScope(c, x, maxpow) ==
    /\ PowersInRange(BRAbs(x), BRAbs(x), maxpow)
    /\ \A i \in 1..Len(c) : InRange(BRMul(c[i], B!Pow(x, i - 1)))

\* C01 "exactly whenever every partial term is exactly representable": all terms are integer
\* multiples of one power of two 2^q and the sum of their magnitudes is below 2^(q+53); then every
\* partial sum of every grouping, every power of x that meets a non-zero coefficient and every
\* c_i x^j (j <= i) is representable, so any scheme of +, *, fma computes the value without rounding.
TermSeq(c, x) == [i \in 1..Len(c) |-> BRMul(c[i], B!Pow(x, i - 1))]
RECURSIVE MinVal2(_, _, _)
MinVal2(t, i, acc) == IF i > Len(t) THEN acc
                      ELSE IF t[i] = BRZero THEN MinVal2(t, i + 1, acc)
                      ELSE LET v == BRVal2(t[i]) IN MinVal2(t, i + 1, IF v < acc THEN v ELSE acc)
ExactCase(c, x) ==
    LET t == TermSeq(c, x)  q == MinVal2(t, 1, 5000) IN
    q = 5000 \/ BRLt(B!AbsEval(c, x), BRPow2(q + 53))

\* err <= tol, recording in TLC register 15 the worst err/tol seen (in percent, capped): how much of each
\* tolerance the real code actually uses -- the evidence that a tolerance is neither vacuous nor tight
Pct(err, tol) ==
    IF tol = BRZero THEN (IF err = BRZero THEN 0 ELSE 1000000)
    ELSE LET r == BRDiv(BRMul(BR(100), err), tol) IN IF BRGe(r, BR(1000000)) THEN 1000000 ELSE BRFloorInt(r) + 1
LeTracked(err, tol) ==
    /\ TLCSet(15, LET v == Pct(err, tol) IN IF v > TLCGet(15) THEN v ELSE TLCGet(15))
    /\ BRLe(err, tol)

\* the C01 bound 4(n+2) 2^-53 sum |c_i||x|^i,  n = degree
Degree(c) == IF Len(c) = 0 THEN 0 ELSE Len(c) - 1
EvalBound(c, ax) == BRMul(BRMul(BR(4 * (Degree(c) + 2)), U), B!AbsEval(c, ax))
=============================================================================
