---------------------------- MODULE Trace_Approx ----------------------------
(***************************************************************************)
(* C17 on real executions.  Events                                         *)
(*   approx {type, sa, a, sb, b, eps, rel, abs_ab, abs_ba, rel_ab, rel_ba} *)
(* a, b: the two values flattened (bits); sa, sb: their shapes; the four   *)
(* booleans are what the library answered in both argument orders.         *)
(* The scalar rule is the approx crate's, stated over rounded f64          *)
(* operations (Fl), so it is the library's scalar relation, not an         *)
(* idealised one.                                                          *)
(* Tallies: 11 events judged, 12 expected-false by a single number,        *)
(*          13 shape mismatches, 14 expected-true with a # b.              *)
(***************************************************************************)
EXTENDS TraceBase, F64

TraceInit == TallyInit /\ l = 1

Finite(bs) == \A i \in 1..Len(bs) : IsFinite(bs[i])

\* f64: (a - b).abs() <= eps       (finite a, b)
AbsScalar(a, b, eps) ==
    LET d == Fl(BRSub(Val(a), Val(b))) IN IsFinite(d) /\ BRLe(BRAbs(Val(d)), Val(eps))

\* f64 relative_eq (approx 0.5): equal => true; |a-b| <= eps => true; else |a-b| <= max(|a|,|b|) * max_relative
RelScalar(a, b, eps, rel) ==
    \/ NumEq(a, b)
    \/ LET d == Fl(BRSub(Val(a), Val(b))) IN
       /\ IsFinite(d)
       /\ \/ BRLe(BRAbs(Val(d)), Val(eps))
          \/ LET largest == BRMax(BRAbs(Val(a)), BRAbs(Val(b)))
                 bound == Fl(BRMul(largest, Val(rel))) IN
             IsInf(bound) \/ BRLe(BRAbs(Val(d)), Val(bound))

Ap == INSTANCE Approx WITH AbsS <- AbsScalar, RelS <- RelScalar

TraceApprox ==
    /\ IsEvent("approx")
    /\ LET e == Rec[l] IN
       IF ~(Finite(e.a) /\ Finite(e.b) /\ IsFinite(e.eps) /\ IsFinite(e.rel) /\ ~SignBit(e.eps) /\ ~SignBit(e.rel)) THEN TRUE
       ELSE LET wantAbs == Ap!AbsEq(e.sa, e.a, e.sb, e.b, e.eps)
                wantRel == Ap!RelEq(e.sa, e.a, e.sb, e.b, e.eps, e.rel) IN
            /\ Tally(11, TRUE)
            /\ Tally(12, e.sa = e.sb /\ ~wantAbs)
            /\ Tally(13, e.sa # e.sb)
            /\ Tally(14, wantAbs /\ e.a # e.b)
            /\ Judge(e.abs_ab = wantAbs /\ e.abs_ba = wantAbs, "abs_diff_eq is not number-by-number")
            /\ Judge(e.rel_ab = wantRel /\ e.rel_ba = wantRel, "relative_eq is not number-by-number")

TraceNext == TraceApprox
=============================================================================
