----------------------------- MODULE Trace_Merge ----------------------------
(***************************************************************************)
(* Real `&f + &g` / `&f - &g` against Merge.tla (C13):                     *)
(*   merge {op, f, g, res:[<<end, a, b, op>>..], lanes, panic, xs}         *)
(* res is read from provenance pieces (which piece of f, which of g, which *)
(* operation); lanes says the same run on IntOfLogPoly4 produced, number   *)
(* by number, the lane-coded combination of exactly those pieces.          *)
(***************************************************************************)
EXTENDS TraceBase, F64

P == INSTANCE Piecewise

TraceInit == TallyInit /\ l = 1

ResEnds(r) == [k \in 1..Len(r) |-> r[k][1]]
Pts(e) == [k \in 1..(Len(e.xs) + Len(e.f) + Len(e.g)) |->
             IF k <= Len(e.xs) THEN e.xs[k]
             ELSE IF k <= Len(e.xs) + Len(e.f) THEN e.f[k - Len(e.xs)] ELSE e.g[k - Len(e.xs) - Len(e.f)]]

\* the model's own run of the loop (Merge!Step iterated), for the shape comparison
RECURSIVE Run(_, _, _, _, _)
Run(f, g, i, j, acc) ==
    LET a == f[i]  b == g[j]  aLast == i >= Len(f)  bLast == j >= Len(g)
        step == IF Lt(a, b) THEN (IF aLast THEN << i, j + 1, b >> ELSE << i + 1, j, a >>)
                ELSE IF Lt(b, a) THEN (IF bLast THEN << i + 1, j, a >> ELSE << i, j + 1, b >>)
                ELSE << (IF i + 1 < Len(f) THEN i + 1 ELSE Len(f)), (IF j + 1 < Len(g) THEN j + 1 ELSE Len(g)), a >>
        acc2 == Append(acc, << step[3], i, j >>)
    IN  IF aLast /\ bLast THEN acc2 ELSE Run(f, g, step[1], step[2], acc2)

TraceMerge ==
    /\ IsEvent("merge")
    /\ LET e == Rec[l]  r == e.res  re == ResEnds(r)  pts == Pts(e) IN
       /\ Judge(P!WellFormed(e.f) /\ P!WellFormed(e.g), "harness: ill-formed input")
       /\ Judge(~e.panic, "panic")
       /\ Judge(e.panic \/ (Len(r) >= 1 /\ Len(r) <= Len(e.f) + Len(e.g) - 1 /\ P!WellFormed(re)), "well-formed result")
       /\ Judge(e.panic \/ \A k \in 1..Len(r) :
                   (\E a \in 1..Len(e.f) : e.f[a] = r[k][1]) \/ (\E b \in 1..Len(e.g) : e.g[b] = r[k][1]), "breakpoints drawn from operands")
       /\ Judge(e.panic \/ \A k \in 1..Len(pts) :
                   LET x == pts[k]  t == r[P!SelectScan(re, x)] IN
                   t[2] = P!SelectScan(e.f, x) /\ t[3] = P!SelectScan(e.g, x) /\ t[4] = e.op, "pointwise")
       /\ Judge(e.panic \/ e.lanes, "coefficient-wise on IntOfLogPoly4")
       /\ Drift(e.panic \/ LET m == Run(e.f, e.g, 1, 1, << >>) IN
                   Len(m) = Len(r) /\ \A k \in 1..Len(r) : m[k][1] = r[k][1] /\ m[k][2] = r[k][2] /\ m[k][3] = r[k][3], "loop")

TraceNext == TraceMerge
=============================================================================
