----------------------------- MODULE Trace_EvalV ----------------------------
(***************************************************************************)
(* Real evaluate_v runs against EvalV.tla (C12, and C16 for NaN items).    *)
(* The harness logs each batch as one event (the adapter's cursor has no   *)
(* hook; each next() is observed from outside):                            *)
(*   evalv {ends, xs, segs, args, valok, pulls, pre, panic, dsegs}         *)
(* pulls[i]: input items pulled once the i-th next() returned (one extra   *)
(* entry for the final None); pre: pulled before the first next().         *)
(* One event is Len(xs) Feed steps of the machine, composed here by a      *)
(* recursive fold that calls the same Seek as EvalV!Feed.                  *)
(***************************************************************************)
EXTENDS TraceBase, F64

\* TRUE: only "does not panic" is judged (C16 drives NaN and infinite arguments through this mechanism;
\* what the answers must be is the business of C02 / C12)
CONSTANT PanicOnly

P == INSTANCE Piecewise

\* EvalV!Seek with ends explicit (EvalV.tla states it on the variable)
RECURSIVE Seek(_, _, _)
Seek(e, x, i) == IF i > Len(e) THEN Len(e) ELSE IF Lt(x, e[i]) THEN i ELSE Seek(e, x, i + 1)

\* cursor after each of xs[1..n] (EvalV!Feed iterated), built left to right
RECURSIVE CursorSeq(_, _, _, _)
CursorSeq(e, xs, k, acc) ==
    IF k > Len(xs) THEN acc
    ELSE CursorSeq(e, xs, k + 1, Append(acc, Seek(e, xs[k], IF k = 1 THEN 1 ELSE acc[k - 1])))

\* running maximum after each element
RECURSIVE RunMaxSeq(_, _, _)
RunMaxSeq(xs, k, acc) ==
    IF k > Len(xs) THEN acc
    ELSE RunMaxSeq(xs, k + 1, Append(acc, IF k = 1 \/ Lt(acc[k - 1], xs[k]) THEN xs[k] ELSE acc[k - 1]))

\* length of the longest NaN-free prefix / non-decreasing NaN-free prefix
RECURSIVE CleanLen(_, _)
CleanLen(xs, k) == IF k > Len(xs) \/ IsNaN(xs[k]) THEN k - 1 ELSE CleanLen(xs, k + 1)
RECURSIVE MonoLen(_, _)
MonoLen(xs, k) == IF k > Len(xs) \/ IsNaN(xs[k]) \/ (k > 1 /\ ~Le(xs[k - 1], xs[k])) THEN k - 1 ELSE MonoLen(xs, k + 1)

TraceInit == TallyInit /\ l = 1

TraceBatch ==
    /\ IsEvent("evalv")
    /\ LET e == Rec[l]  n == Len(e.xs)
           clean == CleanLen(e.xs, 1)  mono == MonoLen(e.xs, 1)
           rm == RunMaxSeq(e.xs, 1, << >>)
           cur == CursorSeq(e.ends, e.xs, 1, << >>) IN
       /\ Judge(P!WellFormed(e.ends), "harness: ill-formed input")
       /\ Judge(~e.panic, "panic")
       /\ Judge(PanicOnly \/ e.panic \/ (Len(e.segs) = n /\ e.valok /\ \A k \in 1..n : e.args[k] = e.xs[k]), "order-or-argument")
       \* (c) lazy: nothing before the first next(), one item per output, one more for the final None
       /\ Judge(PanicOnly \/ e.panic \/ (e.pre = 0 /\ Len(e.pulls) = n + 1 /\ \A k \in 1..(n + 1) : e.pulls[k] = k), "lazy")
       \* (b) piece = Select at the running maximum, as long as no NaN has been fed
       /\ Judge(PanicOnly \/ e.panic \/ \A k \in 1..clean : e.segs[k] = P!SelectScan(e.ends, rm[k]), "running-max")
       \* (a) non-decreasing prefix: bit-identical to pointwise evaluation
       /\ Judge(PanicOnly \/ e.panic \/ \A k \in 1..mono :
                    (e.segs[k] = P!SelectScan(e.ends, e.xs[k]) /\ e.dsegs[k] = e.segs[k]), "pointwise")
       \* shape: the cursor machine, NaN items included
       /\ Drift(e.panic \/ \A k \in 1..n : e.segs[k] = cur[k], "cursor")

TraceNext == TraceBatch
=============================================================================
