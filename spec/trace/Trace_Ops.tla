------------------------------ MODULE Trace_Ops -----------------------------
(***************************************************************************)
(* Coefficient-wise operations on real executions: C14 (scale, negate,     *)
(* add, subtract, translate on every form), C08 (formal derivative), C07   *)
(* (polynomial integration), C15 (the same operations lifted to segments   *)
(* and piecewise functions).  A function form is its flattened number      *)
(* sequence, additive constant first:                                      *)
(*   PolyK / PolyN / Log<P>  << c0, c1, ... >>                             *)
(*   IntOfLog<P>             << k, q0, q1, ... >>                          *)
(*   IntOfLogPoly4           << k, c1, c2, c3, c4, u >>                    *)
(* Events                                                                  *)
(*   op    {type, op, a, b, s, r, r2}     r2: result of `*=` when op="mul" *)
(*   deriv {type, a, r}                                                    *)
(*   integ {type, c, kx, ky, indef, integ, dback, pa, pb, fa, fb}          *)
(*   pwop  {type, op, ends, pieces, s, rends, rpieces, alone}              *)
(* Tallies: 11 op events judged, 12 deriv, 13 integ, 14 pwop.              *)
(***************************************************************************)
EXTENDS TraceBase, BigPoly

TraceInit == TallyInit /\ l = 1

Finite(bs) == \A i \in 1..Len(bs) : IsFinite(bs[i])
\* no overflow / underflow in a single exact result q
Rep(q) == InRange(q)

\* every number of r is the correctly rounded exact lane-wise result
LaneOK(rb, q) == IsFinite(rb) /\ IsFlOf(rb, q)

OpOK(e) ==
    LET a == e.a  r == e.r  n == Len(a) IN
    CASE e.op = "mul" ->
            /\ Len(r) = n
            /\ \A i \in 1..n : LaneOK(r[i], BRMul(Val(a[i]), Val(e.s)))
            /\ (Len(e.r2) > 0 => e.r2 = r)                      \* `*=` gives exactly the result of `*`
      [] e.op = "neg" ->
            /\ Len(r) = n
            /\ \A i \in 1..n : LaneOK(r[i], BRNeg(Val(a[i])))
      [] e.op = "add" ->
            /\ Len(r) = n /\ Len(e.b) = n
            /\ \A i \in 1..n : LaneOK(r[i], BRAdd(Val(a[i]), Val(e.b[i])))
      [] e.op = "sub" ->
            /\ Len(r) = n /\ Len(e.b) = n
            /\ \A i \in 1..n : LaneOK(r[i], BRSub(Val(a[i]), Val(e.b[i])))
      [] e.op = "translate" ->
            IF n = 0 THEN r = << e.s >>                           \* empty PolyN becomes the constant
            ELSE /\ Len(r) = n
                 /\ LaneOK(r[1], BRAdd(Val(a[1]), Val(e.s)))     \* the additive constant only
                 /\ \A i \in 2..n : r[i] = a[i]

OpInScope(e) ==
    /\ Finite(e.a) /\ Finite(e.b) /\ IsFinite(e.s)
    /\ CASE e.op = "mul" -> \A i \in 1..Len(e.a) : Rep(BRMul(Val(e.a[i]), Val(e.s)))
         [] e.op \in { "add" } -> \A i \in 1..Len(e.a) : Rep(BRAdd(Val(e.a[i]), Val(e.b[i])))
         [] e.op \in { "sub" } -> \A i \in 1..Len(e.a) : Rep(BRSub(Val(e.a[i]), Val(e.b[i])))
         [] e.op = "translate" -> Len(e.a) = 0 \/ Rep(BRAdd(Val(e.a[1]), Val(e.s)))
         [] OTHER -> TRUE

TraceOp ==
    /\ IsEvent("op")
    /\ LET e == Rec[l] IN
       IF ~OpInScope(e) THEN TRUE
       ELSE Tally(11, TRUE) /\ Judge(OpOK(e), "coefficient-wise operation")

-----------------------------------------------------------------------------
\* C08
DerivOK(e) ==
    LET a == e.a  r == e.r  n == Len(a) IN
    IF n = 1 THEN r = << PosZero >>
    ELSE /\ Len(r) = n - 1
         /\ \A i \in 1..(n - 1) :
               LET q == BRMul(BR(i), Val(a[i + 1])) IN
               /\ IsFinite(r[i]) /\ WithinUlps(r[i], q, 1)
               /\ (i \in { 1, 2, 4, 8 } => Val(r[i]) = q)
DerivShape(e) ==
    Len(e.a) = 1 \/ \A i \in 1..(Len(e.a) - 1) : IsFlOf(e.r[i], BRMul(BR(i), Val(e.a[i + 1])))

TraceDeriv ==
    /\ IsEvent("deriv")
    /\ LET e == Rec[l] IN
       \* scope: every finite coefficient vector whose products (i+1) c_(i+1) do not overflow.  (A product with a small
       \* integer cannot underflow: subnormal coefficients are in scope, and their products are exact.)
       IF ~(Finite(e.a) /\ \A i \in 2..Len(e.a) : BRLt(BRAbs(BRMul(BR(i - 1), Val(e.a[i]))), BRPow2(1024))) THEN TRUE
       ELSE /\ Tally(12, TRUE)
            /\ Judge(DerivOK(e), "formal derivative")
            /\ Drift(DerivShape(e), "derivative lane not a single correctly rounded product")

-----------------------------------------------------------------------------
\* C07
IntegOK(e) ==
    LET c == Vals(e.c)  n == Len(c)  F == e.indef  G == e.integ
        kx == Val(e.kx)  ky == Val(e.ky)
        Fx == Vals(F)  Gx == Vals(G)
        exactF == B!Indef(c)
        tolKnot == BRMul(BRMul(BR(8 * (n + 3)), U), BRAdd(BRAbs(ky), B!AbsEval(Fx, kx)))
    IN  /\ Len(F) = n + 1 /\ Len(G) = n + 1
        /\ F[1] = PosZero                                           \* zero constant term
        /\ \A i \in 1..n : IsFinite(F[i + 1]) /\ IsFlOf(F[i + 1], exactF[i + 1])   \* c_i/(i+1), correctly rounded
        /\ \A i \in 2..(n + 1) : G[i] = F[i]                        \* shifted vertically only
        /\ IsFinite(G[1])
        /\ LeTracked(BRAbs(BRSub(B!Eval(Gx, kx), ky)), tolKnot)          \* passes through the knot
        \* F(b) - F(a) is the exact integral, up to the rounding of the coefficients
        /\ LET a == Val(e.pa)  b == Val(e.pb)
               tolInt == BRMul(BRMul(BR(2), U), BRAdd(B!AbsEval(exactF, a), B!AbsEval(exactF, b)))
           IN  LeTracked(BRAbs(BRSub(BRSub(B!Eval(Gx, b), B!Eval(Gx, a)), B!DefInt(c, a, b))), tolInt)
        \* differentiating the result returns p to within one ulp, coefficient-wise
        /\ Len(e.dback) = n /\ \A i \in 1..n : IsFinite(e.dback[i]) /\ WithinUlps(e.dback[i], c[i], 1)

IntegInScope(e) ==
    /\ Finite(e.c) /\ IsFinite(e.kx) /\ IsFinite(e.ky) /\ IsFinite(e.pa) /\ IsFinite(e.pb)
    \* (inputs only: a non-finite RESULT for in-scope inputs is a wrong answer -- IntegOK asks for finite numbers
    \*  before it computes with them)
    /\ LET c == Vals(e.c) IN
       /\ \A i \in 1..Len(c) : Rep(BRDiv(c[i], BR(i)))
       /\ TermsInScope(B!Indef(c), Val(e.kx), 9)
       /\ TermsInScope(B!Indef(c), Val(e.pa), 9) /\ TermsInScope(B!Indef(c), Val(e.pb), 9)
       /\ Rep(Val(e.ky))

TraceInteg ==
    /\ IsEvent("integ")
    /\ LET e == Rec[l] IN
       IF ~IntegInScope(e) THEN TRUE
       ELSE Tally(13, TRUE) /\ Judge(IntegOK(e), "polynomial integral")

-----------------------------------------------------------------------------
\* C15 (and the piecewise half of C08): the operation on a segment list is the operation on
\* every piece, breakpoints untouched.
PieceEvent(e, i) ==
    [op |-> e.op, a |-> e.pieces[i], b |-> << >>, s |-> e.s, r |-> e.rpieces[i], r2 |-> << >>]

PwOK(e) ==
    /\ Len(e.rends) = Len(e.ends) /\ e.rends = e.ends               \* same count, order, bits
    /\ Len(e.rpieces) = Len(e.pieces)
    /\ \A i \in 1..Len(e.pieces) :
          /\ e.rpieces[i] = e.alone[i]                              \* exactly as applied to the piece alone
          /\ IF e.op = "deriv"
             THEN (\A k \in 2..Len(e.pieces[i]) : BRLt(BRAbs(BRMul(BR(k - 1), Val(e.pieces[i][k]))), BRPow2(1024)))
                      => DerivOK([a |-> e.pieces[i], r |-> e.rpieces[i]])
             ELSE OpInScope(PieceEvent(e, i)) => OpOK(PieceEvent(e, i))

TracePw ==
    /\ IsEvent("pwop")
    /\ LET e == Rec[l] IN
       \* scope: finite inputs (a non-finite result is judged by the per-piece clauses, whose own scope is on the inputs)
       IF ~(\A i \in 1..Len(e.pieces) : Finite(e.pieces[i])) THEN TRUE
       ELSE Tally(14, TRUE) /\ Judge(PwOK(e), "piecewise operation")

TraceNext == TraceOp \/ TraceDeriv \/ TraceInteg \/ TracePw
=============================================================================
