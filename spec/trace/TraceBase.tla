----------------------------- MODULE TraceBase ------------------------------
(***************************************************************************)
(* Common scaffold of the trace specifications (impl -> spec conformance). *)
(*                                                                         *)
(* The harness writes one ndjson event per public call of the real library *)
(* (arguments and results as f64 bit patterns << hi, lo >>); the path is   *)
(* in the environment variable TRACE.  A trace spec consumes one line per  *)
(* step: each of its actions is                                            *)
(*     IsEvent(name) /\ <bind logged fields> /\ <core action> /\ Judge(..) *)
(*                                                                         *)
(* Judge(ok, what): with Strict the action is simply disabled when the     *)
(* contract does not hold, so the trace is rejected at that line (the      *)
(* classical acceptance test: POSTCONDITION AllConsumed fails).  Without   *)
(* Strict the violation is printed as a VIOL line and the trace goes on,   *)
(* so that every event of a long trace is judged and a known finding does  *)
(* not hide a new one; AllConsumed then only guards against a stuck spec.  *)
(* Drift(ok, what) reports an implementation-shape mismatch (DRIFT line);  *)
(* it never rejects: the property can hold while the shape has changed.    *)
(***************************************************************************)
EXTENDS Integers, Sequences, TLC, Json, IOUtils

CONSTANT Strict

Rec == ndJsonDeserialize(IOEnv.TRACE)

VARIABLE l          \* next line of Rec to consume

IsEvent(name) == l <= Len(Rec) /\ Rec[l].ev = name /\ l' = l + 1

\* (IF rather than \/: inside an action TLC explores both sides of a disjunction as separate successors
\* while primed variables are still unassigned, which would print a verdict for the side that was not taken)
Judge(ok, what) == IF ok THEN TRUE ELSE (~Strict /\ PrintT(<< "VIOL", l, what >>))
Drift(ok, what) == IF ok THEN TRUE ELSE PrintT(<< "DRIFT", l, what >>)

\* Vacuity guard: tallies of how many events actually exercised a clause (registers 11..14; the
\* meaning of each is stated by the trace spec that uses it).  Needs -workers 1.
TallyInit == TLCSet(11, 0) /\ TLCSet(12, 0) /\ TLCSet(13, 0) /\ TLCSet(14, 0) /\ TLCSet(15, 0)
\* register 15: the worst observed error as a percentage of the tolerance it was allowed (headroom statistic)
TrackMax(i, v) == TLCSet(i, IF v > TLCGet(i) THEN v ELSE TLCGet(i))
Tally(i, cond) == cond => TLCSet(i, TLCGet(i) + 1)

\* one state per consumed line plus the initial state
AllConsumed ==
    LET d == TLCGet("stats").diameter
    IN  IF d = Len(Rec) + 1 THEN PrintT(<< "ACCEPTED", Len(Rec) >>) /\ PrintT(<< "TALLY", TLCGet(11), TLCGet(12), TLCGet(13), TLCGet(14) >>) /\ PrintT(<< "HEADROOM", TLCGet(15) >>)
        ELSE PrintT(<< "REJECTED-AT", d >>) /\ FALSE
=============================================================================
