---------------------------- MODULE Trace_Select ----------------------------
(***************************************************************************)
(* Real Piecewise::evaluate calls on probe pieces against Select (C02):    *)
(*   select {ends, xs, segs, args, valok, panic}                           *)
(* The harness supplies raw bit patterns only; the order is decided here.  *)
(***************************************************************************)
EXTENDS TraceBase, F64

\* TRUE: only "does not panic" is judged (C16 drives NaN and infinite arguments through this mechanism;
\* what the answers must be is the business of C02 / C12)
CONSTANT PanicOnly

P == INSTANCE Piecewise

TraceInit == TallyInit /\ l = 1

TraceSelect ==
    /\ IsEvent("select")
    /\ LET e == Rec[l] IN
       /\ Judge(~e.panic, "panic")
       /\ Judge(P!WellFormed(e.ends), "harness: ill-formed input")
       /\ Judge(PanicOnly \/ e.panic \/ (e.valok /\ \A k \in 1..Len(e.xs) :
                    e.segs[k] = P!SelectScan(e.ends, e.xs[k]) /\ e.args[k] = e.xs[k]), "select")
       /\ Judge(PanicOnly \/ e.panic \/ \A k \in 1..Len(e.xs) : P!HalfOpen(e.ends, e.xs[k]), "half-open")

TraceNext == TraceSelect
=============================================================================
