----------------------------- MODULE Trace_PwInt ----------------------------
(***************************************************************************)
(* C11 on real executions: Piecewise::integral / indefinite and the two    *)
(* segment-integration iterators, for polynomial and log-polynomial pieces.*)
(*   pwint {kind, type, ends, pieces, kx, ky, rends, res, iends, ind,      *)
(*          itereq, joins, ts, fts, its}                                   *)
(* kind "poly": pieces are coefficient vectors, res/ind one degree higher; *)
(* kind "log":  pieces are p of p(ln t); res/ind are << k, q.. >> or, for  *)
(* the quartic, << k, c1..c4, u >>.  fts/its: library evaluation of the    *)
(* integral / the indefinite integral at the points ts.                    *)
(*                                                                         *)
(* The machine of IntegralIter.tla (running knot) is what the code does;   *)
(* what is judged here is the contract, with the true integral defined     *)
(* independently: the sum of exact per-piece definite integrals over the   *)
(* partition Select induces (IntegralIter!IntegralFromTo, here with the    *)
(* antiderivative of each piece kind).                                     *)
(* Tallies: 11 events judged, 12 with knot in the first piece's domain,    *)
(*          13 with >= 2 pieces, 14 log events.                            *)
(***************************************************************************)
EXTENDS TraceBase, PwForms

P == INSTANCE Piecewise

TraceInit == TallyInit /\ l = 1

\* running sum of a sequence, as a concrete sequence (TLC would re-evaluate a recursive function
\* definition at every application): Acc(s)[j] = s[1] + ... + s[j]
RECURSIVE AccFrom(_, _, _)
AccFrom(s, j, acc) == IF j > Len(s) THEN acc
                      ELSE AccFrom(s, j + 1, Append(acc, IF j = 1 THEN s[1] ELSE BRAdd(acc[j - 1], s[j])))
Acc(s) == AccFrom(s, 1, << >>)

\* ------------------------------------------------------------------ the contract
PwIntOK(e) ==
    LET log == e.kind = "log"
        n == Len(e.pieces)
        quartic == log /\ Len(e.pieces[1]) = 5
        E == Vals(e.ends)
        LE == [j \in 1..n |-> LnIf(log, E[j])]
        Pc == [j \in 1..n |-> Vals(e.pieces[j])]
        R == [j \in 1..Len(e.res) |-> Vals(e.res[j])]
        Ri == [j \in 1..Len(e.ind) |-> Vals(e.ind[j])]
        kx == Val(e.kx)  ky == Val(e.ky)  lkx == LnIf(log, kx)
        \* magnitude accumulated along the chain up to and including piece j (left knot and right end)
        LeftX(j) == IF j = 1 THEN kx ELSE E[j - 1]
        LeftL(j) == IF j = 1 THEN lkx ELSE LE[j - 1]
        StepMag(j) == BRAdd(PieceMag(log, Pc[j], LeftX(j), LeftL(j)), PieceMag(log, Pc[j], E[j], LE[j]))
        \* CumMag[j] = |ky| + StepMag(1) + .. + StepMag(j)
        CumMag == Acc([j \in 1..n |-> IF j = 1 THEN BRAdd(BRAbs(ky), StepMag(1)) ELSE StepMag(j)])
        \* the same for indefinite(): piece 1 contributes its magnitude at its own end only
        ICumMag == Acc([j \in 1..n |-> IF j = 1 THEN PieceMag(log, Pc[1], E[1], LE[1]) ELSE StepMag(j)])
        \* PartAcc[j] = integral of f over [E[1], E[j]] (whole pieces 2..j)
        PartAcc == Acc([j \in 1..n |-> IF j = 1 THEN BRZero
                                       ELSE BRSub(Anti(log, Pc[j], E[j], LE[j]), Anti(log, Pc[j], E[j - 1], LE[j - 1]))])
        \* independent definition of the integral from a to t (a in piece sa, t in piece st)
        FromTo(a, la, sa, t, lt, st) ==     \* sa <= st
            IF sa = st THEN BRSub(Anti(log, Pc[sa], t, lt), Anti(log, Pc[sa], a, la))
            ELSE LET first == BRSub(Anti(log, Pc[sa], E[sa], LE[sa]), Anti(log, Pc[sa], a, la))
                     last  == BRSub(Anti(log, Pc[st], t, lt), Anti(log, Pc[st], E[st - 1], LE[st - 1]))
                     mid   == BRSub(PartAcc[st - 1], PartAcc[sa])           \* whole pieces sa+1 .. st-1
                 IN  BRAdd(BRAdd(first, mid), last)
        Integral(a, la, t, lt) ==
            LET sa == P!SelectScan(e.ends, Fl(a))  st == P!SelectScan(e.ends, Fl(t)) IN
            IF sa <= st THEN FromTo(a, la, sa, t, lt, st) ELSE BRNeg(FromTo(t, lt, st, a, la, sa))
        knotInFirst == P!SelectScan(e.ends, e.kx) = 1
    IN
    /\ e.rends = e.ends /\ e.iends = e.ends                       \* same breakpoints, bit for bit
    /\ Len(e.res) = n /\ Len(e.ind) = n
    \* in-scope inputs (every term of every antiderivative within range at the knot and at the breakpoints) give finite
    \* results: a NaN or an infinity here is a wrong answer, not a reason to look away
    /\ \A j \in 1..n : Finite(e.res[j]) /\ Finite(e.ind[j])
    /\ e.itereq                                                    \* by-value = by-reference = integral()
    \* each piece is an antiderivative of the corresponding piece of f
    /\ \A j \in 1..n : LanesOK(log, Pc[j], e.res[j]) /\ LanesOK(log, Pc[j], e.ind[j])
    /\ \A j \in 1..n : \A i \in 2..Len(e.res[j]) : e.ind[j][i] = e.res[j][i]   \* they differ by constants only
    /\ e.ind[1][1] = PosZero                                        \* indefinite(): first constant zero
    \* the first piece passes through k0
    /\ Near(FormVal(log, quartic, R[1], kx, lkx), ky, CumMag[1], 1)
    \* adjacent pieces agree at every interior breakpoint (values of the returned forms, computed exactly)
    /\ \A j \in 1..(n - 1) :
          /\ Near(FormVal(log, quartic, R[j], E[j], LE[j]), FormVal(log, quartic, R[j + 1], E[j], LE[j]), CumMag[j + 1], j + 1)
          /\ Near(FormVal(log, quartic, Ri[j], E[j], LE[j]), FormVal(log, quartic, Ri[j + 1], E[j], LE[j]), ICumMag[j + 1], j + 1)
          \* ... and as the library itself evaluates both neighbours there
          /\ IsFinite(e.joins[j][1]) /\ IsFinite(e.joins[j][2])
          /\ Near(Val(e.joins[j][1]), Val(e.joins[j][2]), CumMag[j + 1], j + 1)
    \* F(t) = k0.y + integral of f from k0.x to t   (k0.x in the first piece's domain)
    /\ knotInFirst =>
          \A k \in 1..Len(e.ts) :
              LET t == Val(e.ts[k])  lt == LnIf(log, t)  st == P!SelectScan(e.ends, e.ts[k]) IN
              \* (a point where the piece's own terms underflow is out of scope)
              InRange(PieceMag(log, Pc[st], t, lt)) =>
              /\ IsFinite(e.fts[k])
              /\ Near(Val(e.fts[k]), BRAdd(ky, Integral(kx, lkx, t, lt)),
                      BRAdd(CumMag[st], PieceMag(log, Pc[st], t, lt)), st + 1)
    \* indefinite(): differences are integrals
    /\ \A k \in 2..Len(e.ts) :
          LET s == Val(e.ts[1])  ls == LnIf(log, s)  ss == P!SelectScan(e.ends, e.ts[1])
              t == Val(e.ts[k])  lt == LnIf(log, t)  st == P!SelectScan(e.ends, e.ts[k])
              far == IF ss < st THEN st ELSE ss IN
          (InRange(PieceMag(log, Pc[st], t, lt)) /\ InRange(PieceMag(log, Pc[ss], s, ls))) =>
          /\ IsFinite(e.its[k])
          /\ Near(BRSub(Val(e.its[k]), Val(e.its[1])), Integral(s, ls, t, lt),
                  BRAdd(BRAdd(ICumMag[far], PieceMag(log, Pc[st], t, lt)), PieceMag(log, Pc[ss], s, ls)), far + 1)

InScope(e) ==
    /\ Finite(e.ends) /\ IsFinite(e.kx) /\ IsFinite(e.ky) /\ Finite(e.ts)
    /\ \A j \in 1..Len(e.pieces) : Finite(e.pieces[j])
    /\ e.kind = "log" => (~SignBit(e.kx) /\ ~IsZero(e.kx) /\ \A j \in 1..Len(e.ends) : ~SignBit(e.ends[j]) /\ ~IsZero(e.ends[j]))
    /\ P!WellFormed(e.ends)
    \* no term of any piece's antiderivative underflows or overflows at the knot or at a breakpoint
    \* (e.g. a subnormal knot abscissa): the properties exclude those
    /\ LET log == e.kind = "log"
           E == Vals(e.ends)
           Pc == [j \in 1..Len(e.pieces) |-> Vals(e.pieces[j])]
           kx == Val(e.kx)
       IN  /\ InRange(kx) /\ InRange(Val(e.ky))
           /\ \A j \in 1..Len(E) : InRange(E[j])
           /\ InRange(PieceMag(log, Pc[1], kx, LnIf(log, kx)))
           /\ \A j \in 1..Len(E) :
                 /\ InRange(PieceMag(log, Pc[j], E[j], LnIf(log, E[j])))
                 /\ j > 1 => InRange(PieceMag(log, Pc[j], E[j - 1], LnIf(log, E[j - 1])))

TracePwInt ==
    /\ IsEvent("pwint")
    /\ LET e == Rec[l] IN
       \* whatever the breakpoints (huge, +infinity as the open right end): indefinite() gives the first piece the
       \* additive constant zero -- a literal, no arithmetic -- and neither call changes the breakpoints
       /\ Judge((Len(e.pieces) >= 1 /\ Finite(e.pieces[1]) /\ Len(e.ind) >= 1)
                    => (e.ind[1][1] = PosZero /\ e.iends = e.ends /\ e.rends = e.ends),
                "indefinite: first constant not zero, or breakpoints changed")
       /\ IF ~InScope(e) THEN TRUE
          ELSE /\ Tally(11, TRUE) /\ Tally(12, P!SelectScan(e.ends, e.kx) = 1) /\ Tally(13, Len(e.ends) >= 2) /\ Tally(14, e.kind = "log")
               /\ Judge(PwIntOK(e), "piecewise integral")

TraceNext == TracePwInt
=============================================================================
