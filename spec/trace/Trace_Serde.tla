----------------------------- MODULE Trace_Serde ----------------------------
(***************************************************************************)
(* C18 on real executions.  The wire format is deliberately not specified: *)
(* the property is the round trip.  Events                                 *)
(*   serde {type, format, shape, a, ok, shape2, b, eq}                     *)
(* a: the value flattened before encoding; b: after decode(encode(.));     *)
(* ok: both steps succeeded; eq: the library's == on the two values.       *)
(* Tallies: 11 events, 12 with a special number (-0, subnormal, +-MAX,     *)
(*          +-MIN_POSITIVE, infinity), 13 with >= 2 segments, 14 borsh.    *)
(***************************************************************************)
EXTENDS TraceBase, F64

TraceInit == TallyInit /\ l = 1

Special(b) == IsInf(b) \/ IsSubnormal(b) \/ (IsZero(b) /\ SignBit(b)) \/ BExp(b) = 2046 \/ (BExp(b) = 1 /\ MantZero(b))

TraceSerde ==
    /\ IsEvent("serde")
    /\ LET e == Rec[l] IN
       IF \E i \in 1..Len(e.a) : IsNaN(e.a[i]) THEN TRUE           \* NaN contents are out of scope
       ELSE IF e.format = "json" /\ \E i \in 1..Len(e.a) : ~IsFinite(e.a[i]) THEN TRUE   \* text formats: finite only
       ELSE /\ Tally(11, TRUE)
            /\ Tally(12, \E i \in 1..Len(e.a) : Special(e.a[i]))
            /\ Tally(13, Len(e.shape) >= 2)
            /\ Tally(14, e.format = "borsh")
            /\ Judge(e.ok, "encode or decode failed")
            /\ Judge(~e.ok \/ (e.shape2 = e.shape /\ e.b = e.a), "round trip changed a number or the shape")
            /\ Judge(~e.ok \/ e.eq, "round trip not equal to the original")

TraceNext == TraceSerde
=============================================================================
