----------------------------- MODULE Trace_Build ----------------------------
(***************************************************************************)
(* The two constructions on real executions: C04/C05 (constrained_spline)  *)
(* and C06 (linear), judged over exact rationals on the *returned*         *)
(* coefficients.                                                           *)
(*   spline {knots:[<<x,y>>], ends, coef:[<<a,b,c,d>>], panic}             *)
(*   linear {knots:[<<x,y>>], ends, coef:[<<c0,c1>>], ts, fts, panic}      *)
(* Tallies: 11 spline events judged, 12 of them containing an interior     *)
(* extremum or plateau, 13 linear events judged, 14 of them containing a   *)
(* segment narrower than epsilon or an out-of-order abscissa.              *)
(***************************************************************************)
EXTENDS TraceBase, BigPoly

S == INSTANCE Spline WITH Zero <- BRZero, One <- BROne, Add <- BRAdd, Sub <- BRSub, Mul <- BRMul, Div <- BRDiv,
                          Neg <- BRNeg, Abs <- BRAbs, Leq <- BRLe, FromInt <- BR
P == INSTANCE Piecewise

TraceInit == TallyInit /\ l = 1

KAPPA == 64            \* "a small multiple of 2^-53" for the spline construction (measured worst case 2.2, see DESIGN)
KU == BRMul(BR(KAPPA), U)
Finite(bs) == \A i \in 1..Len(bs) : IsFinite(bs[i])
Knots(e) == [j \in 1..Len(e.knots) |-> << Val(e.knots[j][1]), Val(e.knots[j][2]) >>]
Sq(x) == BRMul(x, x)
Cube(x) == BRMul(Sq(x), x)

\* ------------------------------------------------------------------ spline
\* Magnitudes of the intermediate terms of `segment` (not of the returned coefficients: for nearly
\* collinear data c and d are ~0 while their rounding errors are not).  s = |secant|, f0, f1 = |end slopes|.
SegMags(k0, k1, f0, f1) ==
    LET ax0 == BRAbs(k0[1])  ax1 == BRAbs(k1[1])  dx == BRSub(k1[1], k0[1])
        s  == BRAbs(S!Secant(k0, k1))
        E2 == BRDiv(BRMul(BR(2), BRAdd(BRMul(BR(3), s), BRMul(BR(2), BRAdd(BRAbs(f0), BRAbs(f1))))), dx)
        Dm == BRDiv(BRMul(BR(2), E2), BRMul(BR(6), dx))
        Cm == BRDiv(BRMul(BRAdd(ax1, ax0), E2), BRMul(BR(2), dx))
        Bm == BRAdd(BRAdd(s, BRMul(Cm, BRAdd(ax1, ax0))), BRMul(Dm, BRAdd(BRAdd(Sq(ax1), BRMul(ax1, ax0)), Sq(ax0))))
        Am == BRAdd(BRAdd(BRAdd(BRAbs(k0[2]), BRMul(Bm, ax0)), BRMul(Cm, Sq(ax0))), BRMul(Dm, Cube(ax0)))
    IN  << Am, Bm, Cm, Dm >>
ValTol(m, x) == LET ax == BRAbs(x) IN
    BRMul(KU, BRAdd(BRAdd(BRAdd(m[1], BRMul(m[2], ax)), BRMul(m[3], Sq(ax))), BRMul(m[4], Cube(ax))))
SlopeTol(m, x) == LET ax == BRAbs(x) IN
    BRMul(KU, BRAdd(BRAdd(m[2], BRMul(BRMul(BR(2), m[3]), ax)), BRMul(BRMul(BR(3), m[4]), Sq(ax))))
Within(a, b, tol) == LeTracked(BRAbs(BRSub(a, b)), tol)

SplineOK(e) ==
    LET ks == Knots(e)  n == Len(ks)
        f == S!Slopes(ks)                                           \* exact Kruger slopes of the float knots
        C == [j \in 1..Len(e.coef) |-> Vals(e.coef[j])]
        D == [j \in 1..Len(e.coef) |-> B!Deriv(C[j])]
        M == [j \in 1..(n - 1) |-> SegMags(ks[j], ks[j + 1], f[j], f[j + 1])]
    IN
    /\ Len(e.coef) = n - 1 /\ Len(e.ends) = n - 1
    /\ \A j \in 1..(n - 1) : Len(e.coef[j]) = 4 /\ e.ends[j] = e.knots[j + 1][1]      \* right abscissa verbatim
    \* C04: interpolation at both knots of every interval
    /\ \A j \in 1..(n - 1) :
          /\ Within(B!Eval(C[j], ks[j][1]), ks[j][2], ValTol(M[j], ks[j][1]))
          /\ Within(B!Eval(C[j], ks[j + 1][1]), ks[j + 1][2], ValTol(M[j], ks[j + 1][1]))
    \* C04/C05: the slopes at both ends are the exact Kruger slopes (hence C1, harmonic mean, end rule,
    \* zero at extrema and plateaux, the straight line for collinear knots)
    /\ \A j \in 1..(n - 1) :
          /\ Within(B!Eval(D[j], ks[j][1]), f[j], SlopeTol(M[j], ks[j][1]))
          /\ Within(B!Eval(D[j], ks[j + 1][1]), f[j + 1], SlopeTol(M[j], ks[j + 1][1]))
    /\ \A j \in 1..(n - 2) :
          Within(B!Eval(D[j], ks[j + 1][1]), B!Eval(D[j + 1], ks[j + 1][1]),
                 BRAdd(SlopeTol(M[j], ks[j + 1][1]), SlopeTol(M[j + 1], ks[j + 1][1])))
    \* C05: monotone on every interval -- the exact minimum (maximum) of the derivative quadratic over the
    \* interval, from its end values and its vertex when that lies inside; no sampling of x
    /\ \A j \in 1..(n - 1) :
          LET x0 == ks[j][1]  x1 == ks[j + 1][1]
              ex == S!QExtremes(D[j], x0, x1)
              tol == BRAdd(SlopeTol(M[j], x0), SlopeTol(M[j], x1))
          IN  IF BRLe(ks[j][2], ks[j + 1][2]) THEN \A v \in ex : BRLe(BRNeg(tol), v)
                                              ELSE \A v \in ex : BRLe(v, tol)
    \* C05: no overshoot -- the cubic lies in the convex hull of its Bernstein control values on the interval
    /\ \A j \in 1..(n - 1) :
          LET x0 == ks[j][1]  x1 == ks[j + 1][1]  y0 == ks[j][2]  y1 == ks[j + 1][2]
              b == S!Bernstein(C[j], x0, x1)
              lo == BRMin(y0, y1)  hi == BRMax(y0, y1)
              tol == BRAdd(BRAdd(ValTol(M[j], x0), ValTol(M[j], x1)),
                           BRMul(BRSub(x1, x0), BRAdd(SlopeTol(M[j], x0), SlopeTol(M[j], x1))))
          IN  \A m \in 1..4 : BRLe(BRSub(lo, tol), b[m]) /\ BRLe(b[m], BRAdd(hi, tol))

\* in scope: >= 3 knots, strictly increasing finite abscissae, nothing overflowing or underflowing
SplineInScope(e) ==
    /\ Len(e.knots) >= 3
    /\ \A j \in 1..Len(e.knots) : Finite(e.knots[j])
    /\ \A j \in 1..(Len(e.knots) - 1) : Lt(e.knots[j][1], e.knots[j + 1][1])
    /\ LET ks == Knots(e) IN
       /\ \A j \in 1..(Len(ks) - 1) :
             /\ InRange(BRSub(ks[j + 1][1], ks[j][1])) /\ InRange(BRSub(ks[j + 1][2], ks[j][2]))
             /\ InRange(S!Secant(ks[j], ks[j + 1]))
             /\ InRange(Cube(BRDiv(BRAdd(BRAbs(ks[j][1]), BRAbs(ks[j + 1][1])), BRSub(ks[j + 1][1], ks[j][1]))))
       \* the sign test of f_dx looks at the *rounded* product of adjacent secant slopes: it sees the right sign as long
       \* as the product is zero or at least the smallest subnormal; below that the product underflows to zero and the
       \* knot is treated as flat (an underflow of the construction, excluded like the others)
       /\ \A j \in 2..(Len(ks) - 1) :
             LET pr == BRMul(S!Secant(ks[j - 1], ks[j]), S!Secant(ks[j], ks[j + 1])) IN
             pr = BRZero \/ (BRLe(BRPow2(-1074), BRAbs(pr)) /\ BRLe(BRAbs(pr), Big))
       /\ \A j \in 1..Len(ks) : InRange(Cube(ks[j][1])) /\ InRange(ks[j][2])

HasExtremum(e) ==
    LET ks == Knots(e) IN \E j \in 2..(Len(ks) - 1) : BRLe(BRMul(S!Secant(ks[j - 1], ks[j]), S!Secant(ks[j], ks[j + 1])), BRZero)

TraceSpline ==
    /\ IsEvent("spline")
    /\ LET e == Rec[l] IN
       IF ~SplineInScope(e) THEN TRUE
       ELSE /\ Tally(11, TRUE) /\ Tally(12, HasExtremum(e))
            /\ Judge(~e.panic, "panic")
            /\ Judge(e.panic \/ (\A j \in 1..Len(e.coef) : Finite(e.coef[j])) , "non-finite coefficient")
            /\ Judge(e.panic \/ ~(\A j \in 1..Len(e.coef) : Finite(e.coef[j])) \/ SplineOK(e), "constrained spline")

\* ------------------------------------------------------------------ linear
\* running maximum of the abscissae (bit patterns), as a concrete sequence built left to right
RECURSIVE RunMaxFrom(_, _, _)
RunMaxFrom(kn, j, acc) == IF j > Len(kn) THEN acc
                          ELSE RunMaxFrom(kn, j + 1, Append(acc, IF j = 1 THEN kn[1][1] ELSE MaxOf(acc[j - 1], kn[j][1])))
RunMaxAll(kn) == RunMaxFrom(kn, 1, << >>)

LinearOK(e) ==
    LET ks == Knots(e)  n == Len(ks)
        RM == RunMaxAll(e.knots)
        X == [j \in 1..n |-> Val(RM[j])]                             \* forced abscissae
        C == [j \in 1..Len(e.coef) |-> Vals(e.coef[j])]
        \* width as the code sees it: the rounded difference of the forced abscissae
        W == [j \in 1..(n - 1) |-> Val(Fl(BRSub(X[j + 1], X[j])))]
        Tol(j) == BRMul(BRMul(BR(16), U),
                        BRAdd(BRAdd(BRAbs(ks[j][2]), BRAbs(ks[j + 1][2])), BRMul(BRAbs(C[j][2]), BRAdd(BRAbs(X[j]), BRAbs(X[j + 1])))))
        regular == \A j \in 1..(n - 1) : BRLe(Eps, BRSub(ks[j + 1][1], ks[j][1])) /\ BRLe(Eps, W[j])
    IN
    /\ Len(e.coef) = n - 1 /\ Len(e.ends) = n - 1
    \* ends are the running maximum of the abscissae (numerically: either zero may stand for the other)
    /\ \A j \in 1..(n - 1) : NumEq(e.ends[j], RM[j + 1])
    /\ P!WellFormed(e.ends)
    /\ \A j \in 1..(n - 1) :
          /\ Len(e.coef[j]) = 2
          /\ Within(B!Eval(C[j], X[j]), ks[j][2], Tol(j))                       \* through the forced left knot
          /\ IF BRLt(W[j], Eps)
             THEN C[j][2] = BRZero /\ C[j][1] = ks[j][2]                        \* narrower than epsilon: constant
             ELSE Within(B!Eval(C[j], X[j + 1]), ks[j + 1][2], Tol(j))          \* through the right knot
    \* regular knots: interpolant between knots, ordinate at knots, extrapolation outside
    /\ regular =>
          \A k \in 1..Len(e.ts) :
              LET t == Val(e.ts[k])  s == P!SelectScan(e.ends, e.ts[k])
                  slope == S!Secant(ks[s], ks[s + 1])
                  want == BRAdd(ks[s][2], BRMul(slope, BRSub(t, ks[s][1])))
                  tol == BRMul(BRMul(BR(16), U), BRAdd(BRAdd(BRAbs(ks[s][2]), BRAbs(ks[s + 1][2])),
                                                      BRMul(BRAbs(slope), BRAdd(BRAdd(BRAbs(ks[s][1]), BRAbs(ks[s + 1][1])), BRAbs(t)))))
              IN  IsFinite(e.fts[k]) /\ Within(Val(e.fts[k]), want, tol)

LinearInScope(e) ==
    /\ Len(e.knots) >= 2
    /\ \A j \in 1..Len(e.knots) : Finite(e.knots[j])
    /\ Finite(e.ts)
    /\ LET ks == Knots(e) IN
       \A j \in 1..(Len(ks) - 1) :
          /\ InRange(BRSub(ks[j + 1][2], ks[j][2]))
          /\ InRange(BRMul(BRSub(ks[j + 1][2], ks[j][2]), BRPow2(60)))     \* slope * |x| cannot overflow for |x| < 2^..
          /\ InRange(ks[j][1]) /\ InRange(Sq(ks[j][1]))

Irregular(e) == LET RM == RunMaxAll(e.knots) IN \E j \in 1..(Len(e.knots) - 1) :
    LET a == Val(RM[j])  b == Val(e.knots[j + 1][1]) IN BRLt(BRSub(b, a), Eps)

TraceLinear ==
    /\ IsEvent("linear")
    /\ LET e == Rec[l] IN
       IF ~LinearInScope(e) THEN TRUE
       ELSE /\ Tally(13, TRUE) /\ Tally(14, Irregular(e))
            /\ Judge(~e.panic, "panic")
            \* finite knots in scope give finite coefficients, breakpoints and values: a NaN or an infinity is a wrong
            \* answer (and must not reach the exact arithmetic below, which has no value for it)
            /\ Judge(e.panic \/ ((\A j \in 1..Len(e.coef) : Finite(e.coef[j])) /\ Finite(e.ends)), "non-finite coefficient or breakpoint")
            /\ Judge(e.panic \/ ~((\A j \in 1..Len(e.coef) : Finite(e.coef[j])) /\ Finite(e.ends)) \/ LinearOK(e), "linear")

TraceNext == TraceSpline \/ TraceLinear
=============================================================================
