CONSTANTS Strict = FALSE  Mode = "direct"
INIT TraceInit
NEXT TraceNext
POSTCONDITION AllConsumed
CHECK_DEADLOCK FALSE
