CONSTANTS Strict = FALSE  Scope = {"scalar"}
INIT TraceInit
NEXT TraceNext
POSTCONDITION AllConsumed
CHECK_DEADLOCK FALSE
