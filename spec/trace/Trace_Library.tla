---------------------------- MODULE Trace_Library ---------------------------
(***************************************************************************)
(* Recorded sessions of the real library against the session machine of    *)
(* Library.tla.  Unlike the per-call trace specs this one carries state    *)
(* from event to event: the object (breakpoints and pieces, as bit         *)
(* patterns), the evaluator handle's cursor, the evaluate_v cursor.        *)
(*                                                                         *)
(* Each trace action binds the primed state to what the harness logged     *)
(* after the call and then requires it to be an admissible rounding of     *)
(* Library's exact next-state function applied to the (exact values of     *)
(* the) previous state -- TableRnd: every number the correctly rounded     *)
(* lane-wise result (C14/C15), breakpoints bit-identical.  For integrate   *)
(* the constants are judged by the C11 contract (through the knot,         *)
(* continuous), the other lanes by correct rounding.  Queries are judged   *)
(* against Select on the *current* state and the C01 bound.                *)
(*                                                                         *)
(* Events  lib {op, ...}:  create{kind, ends, pieces}  scale{s,..}  neg    *)
(*   translate{s,..}  derive  integrate{kx, ky,..}  add/sub{gends,         *)
(*   gpieces,..}  eval{x, y}  new  query{x, y, off, tail, last}  drop      *)
(*   vstart  vnext{x, y}  vend       (.. = ends, pieces after the call)    *)
(* Tallies: 11 mutating operations judged, 12 queries judged (eval, query, *)
(* vnext), 13 derive-after-integrate pairs, 14 add/sub.                    *)
(***************************************************************************)
EXTENDS TraceBase, PwForms

\* Which judgments this run makes.  A session exercises many mechanisms; each property's check judges only the
\* clauses that property states ("scalar": C15, "derive": C08, "integrate": C11, "combine": C13, "eval": C02,
\* "query": C03, "vnext": C12), so that a change breaking one property does not raise another property's alarm.
CONSTANT Scope
JudgeIn(sc, ok, what) == IF sc \in Scope THEN Judge(ok, what) ELSE TRUE

VARIABLES kind, ends, pieces, handle, off, last, vprev, vlast, pre

svars == << kind, ends, pieces, handle, off, last, vprev, vlast, pre >>

L == INSTANCE Library WITH Zero <- BRZero, One <- BROne, Add <- BRAdd, Sub <- BRSub, Mul <- BRMul, Div <- BRDiv,
                           Neg <- BRNeg, Abs <- BRAbs, Leq <- BRLe, FromInt <- BR, MaxDeg <- 7,
                           lastop <- [op |-> "none"], before <- [ends |-> << >>, pieces |-> << >>]
P == INSTANCE Piecewise
TraceInit ==
    /\ TallyInit /\ l = 1
    /\ kind = "none" /\ ends = << >> /\ pieces = << >> /\ handle = "none" /\ off = 0 /\ last = PosZero
    /\ vprev = 0 /\ vlast = << >> /\ pre = [op |-> "none"]

FiniteT(t) == \A j \in 1..Len(t) : Finite(t[j])
ValsT(t) == [j \in 1..Len(t) |-> Vals(t[j])]

\* every number of table t is the correctly rounded value of the exact table x (same shape)
TableRnd(t, x) ==
    /\ Len(t) = Len(x)
    /\ \A j \in 1..Len(t) : Len(t[j]) = Len(x[j]) /\ \A i \in 1..Len(t[j]) : IsFinite(t[j][i]) /\ IsFlOf(t[j][i], x[j][i])
InRangeT(x) == \A j \in 1..Len(x) : \A i \in 1..Len(x[j]) : InRange(x[j][i])

Ev == Rec[l]
IsOp(name) == IsEvent("lib") /\ Ev.op = name
Free == handle = "none" /\ vprev = 0
Keep(vs) == UNCHANGED vs

\* ---------------------------------------------------------------- creation
TraceCreate ==
    /\ IsOp("create")
    /\ kind' = Ev.kind /\ ends' = Ev.ends /\ pieces' = Ev.pieces
    /\ handle' = "none" /\ off' = 0 /\ last' = PosZero /\ vprev' = 0 /\ vlast' = << >> /\ pre' = [op |-> "create"]
    /\ Judge(P!WellFormed(Ev.ends) /\ Len(Ev.pieces) = Len(Ev.ends), "harness: ill-formed object")

\* an in-place edit through the public fields (Library!EditEnd / PopPiece and the driver's wider family of edits):
\* the object is whatever the caller made it; only the borrow rule and well-formedness of the harness's own edit
TraceEdit ==
    /\ IsOp("edit")
    /\ Judge(Free, "harness: mutation while borrowed")
    /\ ends' = Ev.ends /\ pieces' = Ev.pieces
    /\ pre' = [op |-> "edit"]
    /\ Keep(<< kind, handle, off, last, vprev, vlast >>)
\* (No well-formedness verdict here: an edit of ONE breakpoint is well-formed only relative to the breakpoints the
\* library's previous operation left, so an ill-formed object after an edit may be that operation's fault -- which its
\* own clause reports.  The clauses whose properties quantify over well-formed objects are guarded by WF below.)
WF == P!WellFormed(ends) /\ Len(pieces) = Len(ends)

\* ---------------------------------------------------------------- lane-wise mutations
Mutation(name, exact) ==
    /\ IsOp(name)
    /\ Judge(Free, "harness: mutation while borrowed")
    /\ ends' = Ev.ends /\ pieces' = Ev.pieces
    /\ pre' = [op |-> name, ends |-> ends, pieces |-> pieces]
    /\ Keep(<< kind, handle, off, last, vprev, vlast >>)
    /\ IF ~(FiniteT(pieces) /\ InRangeT(exact)) THEN TRUE
       ELSE /\ Tally(11, TRUE)
            /\ JudgeIn("scalar", FiniteT(Ev.pieces), "non-finite result for finite in-range operands")
            /\ JudgeIn("scalar", Ev.ends = ends, "breakpoints changed")
            /\ JudgeIn("scalar", ~FiniteT(Ev.pieces) \/ TableRnd(Ev.pieces, exact), "piece is not the operation applied to it alone")

TraceScale     == Mutation("scale", L!ScaleX(ValsT(pieces), Val(Ev.s)))
TraceNeg       == Mutation("neg", L!NegX(ValsT(pieces)))
TraceTranslate == Mutation("translate", L!TranslateX(ValsT(pieces), Val(Ev.s)))

\* derivative: within one ulp (C08); right after an integral it must return the integrand to within one ulp
DeriveOK(t, x) ==
    /\ Len(t) = Len(x)
    /\ \A j \in 1..Len(t) : Len(t[j]) = Len(x[j]) /\ \A i \in 1..Len(t[j]) : IsFinite(t[j][i]) /\ WithinUlps(t[j][i], x[j][i], 1)
TraceDerive ==
    /\ IsOp("derive")
    /\ Judge(Free, "harness: mutation while borrowed")
    /\ ends' = Ev.ends /\ pieces' = Ev.pieces
    /\ pre' = [op |-> "derive", ends |-> ends, pieces |-> pieces]
    /\ Keep(<< kind, handle, off, last, vprev, vlast >>)
    /\ IF ~(FiniteT(pieces) /\ InRangeT(L!DeriveX(ValsT(pieces)))) THEN TRUE
       ELSE LET exact == L!DeriveX(ValsT(pieces)) IN
            /\ Tally(11, TRUE)
            /\ JudgeIn("derive", Ev.ends = ends, "breakpoints changed")
            /\ JudgeIn("derive", DeriveOK(Ev.pieces, exact), "formal derivative")
            /\ JudgeIn("derive", Len(Ev.pieces[1]) = (IF Len(pieces[1]) = 1 THEN 1 ELSE Len(pieces[1]) - 1), "degree bookkeeping")
            \* derivative . integral = identity (system-level)
            /\ IF pre.op = "integrate" /\ FiniteT(pre.pieces)
               THEN Tally(13, TRUE) /\ JudgeIn("integrate", Ev.ends = pre.ends /\ DeriveOK(Ev.pieces, ValsT(pre.pieces)), "derivative of the integral is not the integrand")
               ELSE TRUE

\* integral(k0): lanes by correct rounding; constants by the C11 contract with accumulated magnitudes
RECURSIVE AccFrom(_, _, _)
AccFrom(s, j, acc) == IF j > Len(s) THEN acc ELSE AccFrom(s, j + 1, Append(acc, IF j = 1 THEN s[1] ELSE BRAdd(acc[j - 1], s[j])))
IntegrateOK(kx, ky) ==
    LET old == ValsT(pieces)  new == ValsT(Ev.pieces)  E == Vals(ends)  n == Len(old)
        mag(j, x) == B!AbsEval(B!Indef(old[j]), x)
        step == [j \in 1..n |-> IF j = 1 THEN BRAdd(BRAbs(ky), BRAdd(mag(1, kx), mag(1, E[1])))
                                ELSE BRAdd(mag(j, E[j - 1]), mag(j, E[j]))]
        cum == AccFrom(step, 1, << >>)
        tol(j) == BRMul(BRMul(BRMul(BR(256), U), BR(j)), cum[j])
    IN  /\ Len(new) = n
        /\ \A j \in 1..n :
              /\ Len(new[j]) = Len(old[j]) + 1
              /\ \A i \in 1..Len(old[j]) : IsFlOf(Ev.pieces[j][i + 1], BRDiv(old[j][i], BR(i)))
        /\ BRLe(BRAbs(BRSub(B!Eval(new[1], kx), ky)), tol(1))
        /\ \A j \in 1..(n - 1) : BRLe(BRAbs(BRSub(B!Eval(new[j], E[j]), B!Eval(new[j + 1], E[j]))), tol(j + 1))
\* integral(k0) of a log-polynomial function: the pieces become IntOfLog forms (or the quartic form);
\* lanes against the exact recurrence, constants by the C11 contract, as in Trace_PwInt
LogIntegrateOK(kx, ky) ==
    LET old == ValsT(pieces)  new == ValsT(Ev.pieces)  E == Vals(ends)  n == Len(old)
        quartic == Len(old[1]) = 5
        LE == [j \in 1..n |-> LnApprox(E[j])]
        lkx == LnApprox(kx)
        step == [j \in 1..n |-> IF j = 1 THEN BRAdd(BRAbs(ky), BRAdd(PieceMag(TRUE, old[1], kx, lkx), PieceMag(TRUE, old[1], E[1], LE[1])))
                                ELSE BRAdd(PieceMag(TRUE, old[j], E[j - 1], LE[j - 1]), PieceMag(TRUE, old[j], E[j], LE[j]))]
        cum == AccFrom(step, 1, << >>)
    IN  /\ Len(new) = n
        /\ \A j \in 1..n : LanesOK(TRUE, old[j], Ev.pieces[j])
        /\ Near(FormVal(TRUE, quartic, new[1], kx, lkx), ky, cum[1], 1)
        /\ \A j \in 1..(n - 1) :
              Near(FormVal(TRUE, quartic, new[j], E[j], LE[j]), FormVal(TRUE, quartic, new[j + 1], E[j], LE[j]), cum[j + 1], j + 1)
PosAll(bs) == \A i \in 1..Len(bs) : IsFinite(bs[i]) /\ ~SignBit(bs[i]) /\ ~IsZero(bs[i])

TraceIntegrate ==
    /\ IsOp("integrate")
    /\ Judge(Free, "harness: mutation while borrowed")
    /\ ends' = Ev.ends /\ pieces' = Ev.pieces
    /\ kind' = IF kind = "log" THEN Ev.kind ELSE kind
    /\ pre' = [op |-> "integrate", ends |-> ends, pieces |-> pieces]
    /\ Keep(<< handle, off, last, vprev, vlast >>)
    /\ IF kind = "log"
       THEN IF ~(WF /\ FiniteT(pieces) /\ PosAll(ends) /\ PosAll(<< Ev.kx >>) /\ IsFinite(Ev.ky) /\ InRange(Val(Ev.ky))
                      /\ Finite(ends) /\ IsFinite(Ev.kx) /\ InRange(Val(Ev.kx)) /\ (\A j \in 1..Len(ends) : InRange(Val(ends[j])))) THEN TRUE
            ELSE /\ Tally(11, TRUE)
                 /\ JudgeIn("integrate", Ev.ends = ends /\ Ev.kind = (IF Len(pieces[1]) = 5 THEN "q" ELSE "intoflog"), "breakpoints or form changed")
                 /\ JudgeIn("integrate", FiniteT(Ev.pieces), "non-finite result for finite in-range input")
                 /\ JudgeIn("integrate", ~FiniteT(Ev.pieces) \/ LogIntegrateOK(Val(Ev.kx), Val(Ev.ky)), "piecewise integral of a log-polynomial")
       ELSE IF ~(WF /\ FiniteT(pieces) /\ Finite(ends) /\ IsFinite(Ev.kx) /\ IsFinite(Ev.ky)
                 /\ InRange(Val(Ev.ky))
                 /\ \A j \in 1..Len(pieces) :
                       /\ TermsInScope(B!Indef(Vals(pieces[j])), Val(Ev.kx), 9)
                       /\ TermsInScope(B!Indef(Vals(pieces[j])), Val(ends[j]), 9)
                       /\ j > 1 => TermsInScope(B!Indef(Vals(pieces[j])), Val(ends[j - 1]), 9)) THEN TRUE
            ELSE /\ Tally(11, TRUE)
                 /\ JudgeIn("integrate", Ev.ends = ends, "breakpoints changed")
                 /\ JudgeIn("integrate", FiniteT(Ev.pieces), "non-finite result for finite in-range input")
                 /\ JudgeIn("integrate", ~FiniteT(Ev.pieces) \/ IntegrateOK(Val(Ev.kx), Val(Ev.ky)), "piecewise integral")

\* Library!MergeFrom with breakpoints as bit patterns (IEEE comparisons) and pieces as exact values
RECURSIVE MergeBitsFrom(_, _, _, _, _, _)
MergeBitsFrom(f, g, i, j, sub, acc) ==
    LET a == f.ends[i]  b == g.ends[j]  aLast == i >= Len(f.ends)  bLast == j >= Len(g.ends)
        comb == IF sub THEN B!SubP(f.pieces[i], g.pieces[j]) ELSE B!AddP(f.pieces[i], g.pieces[j])
        st == IF Lt(a, b) THEN (IF aLast THEN << i, j + 1, b >> ELSE << i + 1, j, a >>)
              ELSE IF Lt(b, a) THEN (IF bLast THEN << i + 1, j, a >> ELSE << i, j + 1, b >>)
              ELSE << (IF i + 1 < Len(f.ends) THEN i + 1 ELSE Len(f.ends)), (IF j + 1 < Len(g.ends) THEN j + 1 ELSE Len(g.ends)), a >>
        acc2 == [ends |-> Append(acc.ends, st[3]), pieces |-> Append(acc.pieces, comb)]
    IN  IF aLast /\ bLast THEN acc2 ELSE MergeBitsFrom(f, g, st[1], st[2], sub, acc2)
MergeBits(f, g, sub) == MergeBitsFrom(f, g, 1, 1, sub, [ends |-> << >>, pieces |-> << >>])

\* + / -: Library!MergeX on exact values, every number correctly rounded, breakpoints from the operands
Combine(name, sub) ==
    /\ IsOp(name)
    /\ Judge(Free, "harness: mutation while borrowed")
    /\ ends' = Ev.ends /\ pieces' = Ev.pieces
    /\ pre' = [op |-> name, ends |-> ends, pieces |-> pieces]
    /\ Keep(<< kind, handle, off, last, vprev, vlast >>)
    /\ IF ~(WF /\ FiniteT(pieces) /\ FiniteT(Ev.gpieces)) THEN TRUE
       ELSE LET f == [ends |-> ends, pieces |-> ValsT(pieces)]
                g == [ends |-> Ev.gends, pieces |-> ValsT(Ev.gpieces)]
                \* the code's own merge (Merge.tla), on bit patterns with the IEEE order: the SHAPE it is expected to have
                r == MergeBits(f, g, sub)
                \* C13 as stated: at every x the result's piece combines the piece of f and the piece of g that direct
                \* evaluation selects at x.  Selection only changes at breakpoints, so "every x" is: every breakpoint of f, g
                \* and the result (a breakpoint belongs to the piece on its right), and a point just below each of them.
                SelBelow(es, e) == LET c == { i \in 1..Len(es) : ~Lt(es[i], e) } IN
                                   IF c = {} THEN Len(es) ELSE CHOOSE i \in c : \A k \in c : i <= k
                pts == { ends[i] : i \in 1..Len(ends) } \cup { Ev.gends[i] : i \in 1..Len(Ev.gends) } \cup { Ev.ends[i] : i \in 1..Len(Ev.ends) }
                Comb(i, j) == IF sub THEN B!SubP(f.pieces[i], g.pieces[j]) ELSE B!AddP(f.pieces[i], g.pieces[j])
                PieceIs(k, i, j) ==
                    LET q == Comb(i, j) IN
                    (\A m \in 1..Len(q) : InRange(q[m]))
                        => (Len(Ev.pieces[k]) = Len(q) /\ \A m \in 1..Len(q) : IsFinite(Ev.pieces[k][m]) /\ IsFlOf(Ev.pieces[k][m], q[m]))
                Pointwise ==
                    \A e \in pts :
                        /\ PieceIs(P!SelectScan(Ev.ends, e), P!SelectScan(ends, e), P!SelectScan(Ev.gends, e))
                        /\ PieceIs(SelBelow(Ev.ends, e), SelBelow(ends, e), SelBelow(Ev.gends, e))
                Drawn == \A k \in 1..Len(Ev.ends) : (\E i \in 1..Len(ends) : NumEq(Ev.ends[k], ends[i]))
                                                     \/ (\E j \in 1..Len(Ev.gends) : NumEq(Ev.ends[k], Ev.gends[j]))
            IN  /\ Tally(11, TRUE) /\ Tally(14, TRUE)
                /\ JudgeIn("combine", P!WellFormed(Ev.ends) /\ Len(Ev.pieces) = Len(Ev.ends), "result not well-formed")
                /\ JudgeIn("combine", Len(Ev.ends) <= Len(ends) + Len(Ev.gends) - 1 /\ Drawn, "breakpoints not drawn from the operands, or too many pieces")
                /\ JudgeIn("combine", ~(P!WellFormed(Ev.ends) /\ Len(Ev.pieces) = Len(Ev.ends)) \/ Pointwise, "combined pieces")
                \* (no verdict: a correct merge may drop zero-width pieces or keep the other operand's zero on a tie)
                /\ Drift(Ev.ends = r.ends, "merged breakpoints differ from the model's merge")

TraceAdd == Combine("add", FALSE)
TraceSub == Combine("sub", TRUE)

\* ---------------------------------------------------------------- queries
\* exact value of piece j of the current object at x, and the magnitude that scales its rounding bound
QuarticValAt(r, x) ==
    LET xx == BRNeg(LnApprox(x)) IN
    BRAdd(r[1], BRMul(x, BRAdd(B!Eval(<< BRZero, r[2], r[3], r[4], r[5] >>, xx), BRMul(r[6], BRMul(B!Pow(xx, 5), ExpTail(xx))))))
QuarticMagAt(r, x) ==
    LET xx == BRNeg(LnApprox(x)) IN
    BRAdd(BRAbs(r[1]), BRMul(x, BRAdd(B!AbsEval(<< BRZero, r[2], r[3], r[4], r[5] >>, xx),
                                       BRMul(BRAbs(r[6]), BRAbs(BRMul(B!Pow(xx, 5), ExpTail(xx)))))))
PieceVal(j, x) ==
    LET r == Vals(pieces[j]) IN
    CASE kind = "poly" -> B!Eval(r, x)
      [] kind = "q" -> QuarticValAt(r, x)
      [] kind = "log" -> B!Eval(r, LnApprox(x))                                   \* Log(p)(v) = p(ln v)
      [] kind = "intoflog" -> BRAdd(r[1], BRMul(x, B!Eval(Rest(r), LnApprox(x))))   \* k + v q(ln v)
PieceTol(j, x) ==
    LET r == Vals(pieces[j]) IN
    CASE kind = "poly" -> EvalBound(r, BRAbs(x))
      [] kind = "q" -> BRMul(BRFrac(1, 1000000), BRMul(BRFrac(1, 1000000), QuarticMagAt(r, x)))       \* C10: 1e-12 Mag
      [] kind = "log" ->        \* C01, Log clause: the bound at |L| + ulp plus the propagated ulp of ln
            LET lnx == LnApprox(x)  ulpL == Ulp(Fl(lnx))  A == BRAdd(BRAbs(lnx), BRAdd(ulpL, ErrAbs)) IN
            BRAdd(EvalBound(r, A), BRMul(BRAdd(ulpL, BRMul(BR(2), ErrAbs)), B!Eval(B!AbsSeq(B!Deriv(r)), A)))
      [] kind = "intoflog" ->   \* C09: KAPPA 2^-53 (|k| + v sum |q_i||ln v|^i)
            BRMul(BRAdd(BRMul(BR(512), U), Slack), BRAdd(BRAbs(r[1]), BRMul(x, B!AbsEval(Rest(r), BRAbs(LnApprox(x))))))
QueryInScope(j, x) ==
    /\ IsFinite(x) /\ Finite(pieces[j])
    /\ IF kind = "poly" THEN TermsInScope(Vals(pieces[j]), Val(x), 8)
       ELSE (~SignBit(x) /\ ~IsZero(x) /\ BRLt(BRPow2(-900), Val(x)) /\ BRLt(Val(x), BRPow2(60)))
ValueOK(x, y) ==
    LET j == P!SelectScan(ends, x) IN
    (WF /\ QueryInScope(j, x)) => (Tally(12, TRUE) /\ IsFinite(y) /\ BRLe(BRAbs(BRSub(Val(y), PieceVal(j, Val(x)))), PieceTol(j, Val(x))))

\* Which piece answered.  The event carries `match`: the pieces whose OWN evaluation at x returns exactly the logged
\* bits.  C02 / C03 / C12 state that the answer is, bit for bit, the value of the selected piece -- relative to that
\* piece's own evaluation, whose accuracy is another property's business (C01, C09, C10): a tree with an inaccurate
\* polynomial evaluator still selects correctly, and these clauses must stay silent on it.  (ValueOK above, the
\* absolute version, was the first formulation; it alarmed on seeded evaluation bugs under the selection properties.)
PieceOK(x) ==
    WF => /\ Tally(12, TRUE)
          /\ \E k \in 1..Len(Ev.match) : Ev.match[k] = P!SelectScan(ends, x)

TraceEval ==
    /\ IsOp("eval")
    /\ Keep(svars)
    /\ JudgeIn("eval", PieceOK(Ev.x), "direct evaluation")

TraceNew ==
    /\ IsOp("new")
    /\ Judge(handle = "none", "harness: second handle")
    /\ handle' = "live" /\ off' = 0 /\ last' = ends[1]
    /\ Keep(<< kind, ends, pieces, vprev, vlast, pre >>)

\* the cursor moves as Library!HandleQuery (Evaluator.tla) says; the answer is judged against Select
TraceQuery ==
    /\ IsOp("query")
    /\ Judge(handle = "live", "harness: query without handle")
    /\ LET x == Ev.x
           front == Len(ends) - 1
           scan[k \in 0..front] == IF k >= front THEN front ELSE IF Lt(x, ends[k + 1]) THEN k ELSE scan[k + 1]
           cand == { i \in 1..off : Le(ends[i], x) }
           moff == IF IsNaN(x) THEN off
                   ELSE IF Le(last, x) THEN scan[off]
                   ELSE IF cand = {} THEN 0 ELSE CHOOSE i \in cand : \A k \in cand : k <= i
       IN  /\ off' = Ev.off /\ last' = Ev.last
           /\ JudgeIn("query", PieceOK(x), "evaluator answer")
           /\ Drift(Ev.off = moff /\ Ev.tail = front - moff /\ (IsNaN(x) \/ Ev.last = x), "cursor")
    /\ Keep(<< kind, ends, pieces, handle, vprev, vlast, pre >>)

TraceDrop ==
    /\ IsOp("drop")
    /\ handle' = "none"
    /\ Keep(<< kind, ends, pieces, off, last, vprev, vlast, pre >>)

TraceVStart ==
    /\ IsOp("vstart")
    /\ vprev' = 1 /\ vlast' = << >>
    /\ Keep(<< kind, ends, pieces, handle, off, last, pre >>)
TraceVNext ==
    /\ IsOp("vnext")
    /\ Judge(vprev > 0 /\ (vlast = << >> \/ Le(vlast[1], Ev.x)), "harness: batch not non-decreasing")
    /\ vprev' = P!SelectScan(ends, Ev.x) /\ vlast' = << Ev.x >>
    /\ JudgeIn("vnext", PieceOK(Ev.x), "evaluate_v answer")
    /\ Keep(<< kind, ends, pieces, handle, off, last, pre >>)
TraceVEnd ==
    /\ IsOp("vend")
    /\ vprev' = 0 /\ vlast' = << >>
    /\ Keep(<< kind, ends, pieces, handle, off, last, pre >>)

TraceNext ==
    \/ TraceCreate \/ TraceEdit \/ TraceScale \/ TraceNeg \/ TraceTranslate \/ TraceDerive \/ TraceIntegrate \/ TraceAdd \/ TraceSub
    \/ TraceEval \/ TraceNew \/ TraceQuery \/ TraceDrop \/ TraceVStart \/ TraceVNext \/ TraceVEnd
=============================================================================
