------------------------------- MODULE PwForms ------------------------------
(***************************************************************************)
(* Per-kind semantics of integrated pieces, shared by Trace_PwInt (C11)    *)
(* and Trace_Library (sessions): the exact antiderivative of a piece, the  *)
(* magnitudes that scale its rounding bound, the exact value of a returned *)
(* form, and the lane-by-lane contract of a returned form.                 *)
(*   kind "poly": coefficient vectors;  kind "log": p of p(ln t), whose    *)
(*   integral is << k, q.. >> or, for the quartic, << k, c1..c4, u >>.     *)
(***************************************************************************)
EXTENDS BigPoly

LF == INSTANCE LogForms WITH Zero <- BRZero, One <- BROne, Add <- BRAdd, Sub <- BRSub, Mul <- BRMul, Div <- BRDiv,
                              Neg <- BRNeg, Abs <- BRAbs, Leq <- BRLe, FromInt <- BR, Ln <- LnApprox, R5 <- ExpTail

KAPPA == 256
Slack == BRPow2(-150)
Finite(bs) == \A i \in 1..Len(bs) : IsFinite(bs[i])
Rest(s) == [i \in 1..(Len(s) - 1) |-> s[i + 1]]
TolOf(mag, steps) == BRMul(BRMul(BRAdd(BRMul(BR(KAPPA), U), Slack), BR(steps)), mag)
Near(x, y, mag, steps) == LeTracked(BRAbs(BRSub(x, y)), TolOf(mag, steps))

\* ------------------------------------------------------------------ per-kind semantics
\* lx = ln x (only used by the log kind; BRZero otherwise)
LnIf(log, x) == IF log THEN LnApprox(x) ELSE BRZero

\* exact antiderivative of piece p at x
Anti(log, p, x, lx) == IF log THEN BRMul(x, B!Eval(B!LogIndef(p), lx)) ELSE B!Eval(B!Indef(p), x)
\* magnitude of the terms of that antiderivative
AntiMag(log, p, x, lx) ==
    IF log THEN BRMul(x, B!AbsEval(LF!LogIndefMag(p), BRAbs(lx))) ELSE B!AbsEval(B!Indef(p), x)
\* the quartic form's own term magnitudes (they are larger than AntiMag and cancel)
QMag(p, x, lx) ==
    LET Mf == LF!QuarticIndefMag(p)  xx == BRNeg(lx) IN
    \* (1 + 2|x|/KAPPA): the unavoidable |x| 2^-53 relative error of e^x, x = -ln t rounded to one ulp
    BRMul(x, BRAdd(B!AbsEval(<< BRZero, Mf[1], Mf[2], Mf[3], Mf[4] >>, xx),
                   BRMul(BRMul(Mf[5], BRAbs(BRMul(B!Pow(xx, 5), ExpTail(xx)))),
                         BRAdd(BROne, BRDiv(BRMul(BR(2), BRAbs(xx)), BR(KAPPA))))))
PieceMag(log, p, x, lx) == IF log /\ Len(p) = 5 THEN BRAdd(QMag(p, x, lx), LF!QuarticIndefMag(p)[1]) ELSE AntiMag(log, p, x, lx)

\* exact value at x of a returned integrated piece r (flattened form, numbers already decoded)
FormVal(log, quartic, r, x, lx) ==
    IF ~log THEN B!Eval(r, x)
    ELSE IF quartic THEN
         LET xx == BRNeg(lx) IN
         BRAdd(r[1], BRMul(x, BRAdd(B!Eval(<< BRZero, r[2], r[3], r[4], r[5] >>, xx),
                                    BRMul(r[6], BRMul(B!Pow(xx, 5), ExpTail(xx))))))
    ELSE BRAdd(r[1], BRMul(x, B!Eval(Rest(r), lx)))

\* every number of the returned piece except its additive constant is the antiderivative construction
LanesOK(log, p, rb) ==
    IF ~log THEN
        /\ Len(rb) = Len(p) + 1
        /\ \A i \in 1..Len(p) : IsFinite(rb[i + 1]) /\ IsFlOf(rb[i + 1], BRDiv(p[i], BR(i)))
    ELSE IF Len(p) = 5 THEN
        LET fx == B!QuarticIndef(p)  Mf == LF!QuarticIndefMag(p) IN
        /\ Len(rb) = 6
        /\ \A i \in 1..5 : Near(Val(rb[i + 1]), fx[i], Mf[i], 1)
    ELSE
        LET qx == B!LogIndef(p)  Mq == LF!LogIndefMag(p) IN
        /\ Len(rb) = Len(p) + 1
        /\ \A i \in 1..Len(p) : Near(Val(rb[i + 1]), qx[i], Mq[i], 1)

=============================================================================
