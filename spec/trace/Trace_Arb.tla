------------------------------ MODULE Trace_Arb -----------------------------
(***************************************************************************)
(* Real `Piecewise::<Poly1>::arbitrary` runs against Arb.tla (C19):        *)
(*   arb {nbytes, decoded, outcome, ends, hp, xs, direct, stateful, batch, ppanic} *)
(* decoded: what Vec<f64>::arbitrary yields on the same bytes (environment)*)
(***************************************************************************)
EXTENDS TraceBase, F64

A == INSTANCE Arb
P == INSTANCE Piecewise

TraceInit == TallyInit /\ l = 1

TraceArb ==
    /\ IsEvent("arb")
    /\ LET e == Rec[l] IN
       /\ Judge(A!Contract(e.decoded, e.outcome, e.ends), "arbitrary contract")
       /\ Judge(~e.hp \/ (~e.ppanic /\ \A k \in 1..Len(e.xs) :
                   LET s == P!SelectScan(e.ends, e.xs[k]) IN
                   e.direct[k] = s /\ e.stateful[k] = s /\ e.batch[k] = s), "three evaluation paths")

TraceNext == TraceArb
=============================================================================
