------------------------------ MODULE Trace_Log -----------------------------
(***************************************************************************)
(* C09 and C10 on real executions, judged with ln and the exponential tail *)
(* evaluated to ~230 bits (RealFns) and exact rational arithmetic.         *)
(* Events                                                                  *)
(*   logint  {deg, p, kx, ky, integ, indef, a, b, fa, fb, fk, ia, ib}      *)
(*           integ/indef: flattened results of integral(knot)/indefinite() *)
(*           (<< k, q0.. >>, or << k, c1..c4, u >> for the quartic form);  *)
(*           fa, fb, fk: library evaluation of integ at a, b, knot.x;      *)
(*           ia, ib: library evaluation of indef at a, b                   *)
(*   quartic {k, c, u, v, y}   IntOfLogPoly4{k, coeffs: c, u}.evaluate(v)  *)
(* Tallies: 11 logint judged, 12 of them with a, b, knot.x all # 1,        *)
(*          13 quartic judged, 14 quartic with |v - 1| < 2^-40.            *)
(***************************************************************************)
EXTENDS TraceBase, BigPoly

LF == INSTANCE LogForms WITH Zero <- BRZero, One <- BROne, Add <- BRAdd, Sub <- BRSub, Mul <- BRMul, Div <- BRDiv,
                              Neg <- BRNeg, Abs <- BRAbs, Leq <- BRLe, FromInt <- BR, Ln <- LnApprox, R5 <- ExpTail

TraceInit == TallyInit /\ l = 1

KAPPA == 512          \* "a small multiple of 2^-53" for the log constructions: measured worst case 150 (108 000 events)
Slack == BRPow2(-150)  \* relative allowance for the ln / exp-tail approximations themselves

Finite(bs) == \A i \in 1..Len(bs) : IsFinite(bs[i])
Rest(s) == [i \in 1..(Len(s) - 1) |-> s[i + 1]]
Sum2(a, b) == BRAdd(a, b)
TolOf(mag) == BRMul(BRAdd(BRMul(BR(KAPPA), U), Slack), mag)
Near(x, y, mag) == LeTracked(BRAbs(BRSub(x, y)), TolOf(mag))

\* magnitude of v q(ln v) built from the recurrence's magnitude vector (lt = ln t, computed once per event)
MagAtL(Mq, t, lt) == BRMul(t, B!AbsEval(Mq, BRAbs(lt)))
MagAt(Mq, t) == MagAtL(Mq, t, LnApprox(t))

\* ---------------------------------------------------------------- general degrees (IntOfLog)
GeneralOK(e) ==
    LET p == Vals(e.p)  n == Len(p)
        qx == B!LogIndef(p)               \* exact recurrence on the input
        Mq == LF!LogIndefMag(p)
        kx == Val(e.kx)  ky == Val(e.ky)  a == Val(e.a)  b == Val(e.b)
        K  == Val(e.integ[1])
        lk == LnApprox(kx)  la == LnApprox(a)  lb == LnApprox(b)
        magK == BRAdd(BRAbs(ky), MagAtL(Mq, kx, lk))
        ma == MagAtL(Mq, a, la)  mb == MagAtL(Mq, b, lb)
        Ga == BRMul(a, B!Eval(qx, la))  Gb == BRMul(b, B!Eval(qx, lb))
    IN  /\ Len(e.integ) = n + 1 /\ Len(e.indef) = n + 1
        \* (i) the returned form is the recurrence, lane by lane
        /\ e.indef[1] = PosZero
        /\ \A i \in 1..n : Near(Val(e.indef[i + 1]), qx[i], Mq[i])
        /\ \A i \in 2..(n + 1) : e.integ[i] = e.indef[i]                 \* translate touches k only
        \* (ii) F(knot.x) = knot.y, by the library's own evaluation and by the form's meaning
        /\ Near(Val(e.fk), ky, magK)
        /\ Near(BRAdd(K, BRMul(kx, B!Eval(Vals(Rest(e.integ)), lk))), ky, magK)      \* LF!IntOfLogVal(K, q, kx)
        \* (iii) F(b) - F(a) is the integral of p(ln t) over [a, b]   (fundamental theorem on the exact antiderivative)
        /\ Near(BRSub(Val(e.fb), Val(e.fa)), BRSub(Gb, Ga), BRAdd(BRAdd(magK, ma), mb))
        \* indefinite(): an antiderivative of the same f, additive constant zero: no |k| in the tolerance
        /\ Near(BRSub(Val(e.ib), Val(e.ia)), BRSub(Gb, Ga), BRAdd(ma, mb))

\* ---------------------------------------------------------------- the quartic special form
\* Its value at t is k + t (sum c_j x^j + u x^5 R(x)), x = -ln t: for t > 1 the terms are large and cancel, so
\* the rounding bound of *this* construction is a multiple of the sum of its term magnitudes (the Mag of C10),
\* built here from the magnitude vector of the coefficient recurrence.
QBracket(c, u, x, r) == BRAdd(B!Eval(<< BRZero, c[1], c[2], c[3], c[4] >>, x), BRMul(u, BRMul(B!Pow(x, 5), r)))
\* The term u x^5 R(x) = u (e^x - P4(x)) carries e^x with x = -ln t rounded to one ulp, i.e. a relative error
\* |x| 2^-53 that no evaluation scheme can avoid: its share of the rounding bound is 2|x| 2^-53 times its
\* magnitude, which is folded into the magnitude sum here as the factor (1 + 2|x|/KAPPA).
QBracketMag(Mf, x, r) ==
    BRAdd(B!AbsEval(<< BRZero, Mf[1], Mf[2], Mf[3], Mf[4] >>, x),
          BRMul(BRMul(Mf[5], BRAbs(BRMul(B!Pow(x, 5), r))), BRAdd(BROne, BRDiv(BRMul(BR(2), BRAbs(x)), BR(KAPPA)))))

QuarticOK(e) ==
    LET p == Vals(e.p)
        fx == B!QuarticIndef(p)           \* exact << c1..c4, u >>
        Mf == LF!QuarticIndefMag(p)
        kx == Val(e.kx)  ky == Val(e.ky)  a == Val(e.a)  b == Val(e.b)
        K  == Val(e.integ[1])
        c  == Vals(<< e.integ[2], e.integ[3], e.integ[4], e.integ[5] >>)
        u  == Val(e.integ[6])
        lk == LnApprox(kx)  la == LnApprox(a)  lb == LnApprox(b)
        rk == ExpTail(BRNeg(lk))  ra == ExpTail(BRNeg(la))  rb == ExpTail(BRNeg(lb))
        magK == BRAdd(BRAbs(ky), BRMul(kx, QBracketMag(Mf, BRNeg(lk), rk)))
        ma == BRMul(a, QBracketMag(Mf, BRNeg(la), ra))
        mb == BRMul(b, QBracketMag(Mf, BRNeg(lb), rb))
        \* The exact antiderivative in the quartic form's own shape, t (sum c_j x^j + u x^5 R(x)) with the exact
        \* coefficients fx: it differs from t q(ln t) by the constant q_0 only, and unlike that one it has no
        \* cancellation next to t = 1 (all its terms carry a positive power of x), so the oracle is as accurate
        \* there as the property demands of the implementation.
        Ga == BRMul(a, QBracket(<< fx[1], fx[2], fx[3], fx[4] >>, fx[5], BRNeg(la), ra))
        Gb == BRMul(b, QBracket(<< fx[1], fx[2], fx[3], fx[4] >>, fx[5], BRNeg(lb), rb))
    IN  /\ Len(e.integ) = 6 /\ Len(e.indef) = 6
        /\ e.indef[1] = PosZero
        /\ \A i \in 1..5 : Near(Val(e.indef[i + 1]), fx[i], Mf[i])
        /\ \A i \in 2..6 : e.integ[i] = e.indef[i]
        /\ Near(Val(e.fk), ky, magK)
        /\ Near(BRAdd(K, BRMul(kx, QBracket(c, u, BRNeg(lk), rk))), ky, magK)          \* LF!QuarticVal(K, c, u, kx)
        /\ Near(BRSub(Val(e.fb), Val(e.fa)), BRSub(Gb, Ga), BRAdd(BRAdd(magK, ma), mb))
        /\ Near(BRSub(Val(e.ib), Val(e.ia)), BRSub(Gb, Ga), BRAdd(ma, mb))

PosFinite(b) == IsFinite(b) /\ ~SignBit(b) /\ ~IsZero(b)
ResultsFinite(e) ==
    Finite(e.integ) /\ Finite(e.indef) /\ IsFinite(e.fa) /\ IsFinite(e.fb) /\ IsFinite(e.fk) /\ IsFinite(e.ia) /\ IsFinite(e.ib)
LogIntInScope(e) ==
    /\ Finite(e.p) /\ PosFinite(e.kx) /\ IsFinite(e.ky) /\ PosFinite(e.a) /\ PosFinite(e.b)
    /\ \A t \in { e.kx, e.a, e.b } : InRange(MagAt(LF!LogIndefMag(Vals(e.p)), Val(t)))

TraceLogInt ==
    /\ IsEvent("logint")
    /\ LET e == Rec[l] IN
       IF ~LogIntInScope(e) THEN TRUE
       ELSE /\ Tally(11, TRUE) /\ Tally(12, e.kx # OneBits /\ e.a # OneBits /\ e.b # OneBits)
            \* in-scope inputs (finite, positive, every term of the antiderivative within range at the three points) give
            \* finite results: a NaN or an infinity is a wrong answer, not a reason to look away
            /\ Judge(ResultsFinite(e), "non-finite result for in-scope input")
            /\ Judge(~ResultsFinite(e) \/ (IF Len(e.p) = 5 THEN QuarticOK(e) ELSE GeneralOK(e)), "log-polynomial integral")

\* ---------------------------------------------------------------- C10
\* LF!QuarticVal / LF!QuarticMag with x = -ln v and R(x) computed once per event.
TraceQuartic ==
    /\ IsEvent("quartic")
    /\ LET e == Rec[l] IN
       IF ~(IsFinite(e.k) /\ Finite(e.c) /\ IsFinite(e.u) /\ PosFinite(e.v)) THEN TRUE
       ELSE LET k == Val(e.k)  c == Vals(e.c)  u == Val(e.u)  v == Val(e.v)
                x == BRNeg(LnApprox(v))
                r == ExpTail(x)
                c5 == << BRZero, c[1], c[2], c[3], c[4] >>
                x5r == BRMul(B!Pow(x, 5), r)
                val == BRAdd(k, BRMul(v, BRAdd(B!Eval(c5, x), BRMul(u, x5r))))
                mag == BRAdd(BRAbs(k), BRMul(v, BRAdd(B!AbsEval(c5, x), BRMul(BRAbs(u), BRAbs(x5r)))))
                tol == BRMul(BRAdd(BRFrac(1, 1000000), Slack), BRMul(BRFrac(1, 1000000), mag))     \* 1e-12 * Mag
            IN  IF ~InRange(mag) THEN TRUE
                ELSE /\ Tally(13, TRUE)
                     /\ Tally(14, BRLt(BRAbs(BRSub(v, BROne)), BRPow2(-40)))
                     /\ Judge(IsFinite(e.y) /\ LeTracked(BRAbs(BRSub(Val(e.y), val)), tol), "quartic value")
                     /\ Judge(e.v # OneBits \/ e.y = e.k \/ (IsZero(e.y) /\ IsZero(e.k)), "quartic at v=1")

TraceNext == TraceLogInt \/ TraceQuartic
=============================================================================
