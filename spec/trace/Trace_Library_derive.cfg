CONSTANTS Strict = FALSE  Scope = {"derive"}
INIT TraceInit
NEXT TraceNext
POSTCONDITION AllConsumed
CHECK_DEADLOCK FALSE
