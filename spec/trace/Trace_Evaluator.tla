-------------------------- MODULE Trace_Evaluator ---------------------------
(***************************************************************************)
(* Real PiecewiseEvaluator sessions against Evaluator.tla (C03, C16) and,  *)
(* through the direct evaluation logged next to every query, against       *)
(* Select (C02).  Events:                                                  *)
(*   new   {ends}                                                          *)
(*   query {x, seg, arg, valok, panic, off, tail, last, dseg}              *)
(* seg/arg: piece that answered and the argument bits it received (probe   *)
(* pieces); dseg: piece chosen by a fresh Piecewise::evaluate(x);          *)
(* off/tail/last: the hook's view of the hidden cursor.                    *)
(***************************************************************************)
EXTENDS TraceBase, F64

CONSTANT Mode    \* which property's clauses are judged (a check alarms only on what ITS property states):
                 \*   "direct"     C02: Piecewise::evaluate picks the piece Select names
                 \*   "evaluator"  C03: the evaluator's answer is, bit for bit, direct evaluation's (same piece, argument
                 \*                passed verbatim), whatever the history; no panic
                 \*   "nan"        C16: no panic anywhere; in a history that contains a NaN query the later non-NaN
                 \*                answers still equal direct evaluation's

VARIABLES ends, off, last, sel, arg,
          nanseen      \* a NaN was queried since the last `new`

E == INSTANCE Evaluator WITH NaNGuard <- TRUE

TraceInit == TallyInit /\ l = 1 /\ ends = << PosZero >> /\ off = 0 /\ last = PosZero /\ sel = 0 /\ arg = PosZero /\ nanseen = FALSE

TraceNew ==
    /\ IsEvent("new")
    /\ E!New(Rec[l].ends)
    /\ nanseen' = FALSE

TraceQuery ==
    /\ IsEvent("query")
    /\ LET e == Rec[l] IN
       /\ E!Query(e.x)
       \* contract: whatever the history, the answer is the piece Select names, given x verbatim
       /\ nanseen' = (nanseen \/ IsNaN(e.x))
       /\ Judge(~e.panic, "panic")
       /\ Judge(Mode # "evaluator" \/ IsNaN(e.x) \/ e.panic \/
                (e.seg = e.dseg /\ e.arg = e.x /\ e.valok), "evaluator-vs-direct")
       /\ Judge(Mode # "nan" \/ ~nanseen \/ IsNaN(e.x) \/ e.panic \/
                (e.seg = e.dseg /\ e.arg = e.x /\ e.valok), "evaluator-vs-direct after a NaN query")
       /\ Judge(Mode # "direct" \/ e.panic \/ e.dseg = E!P!SelectScan(ends, e.x), "direct-vs-Select")
       \* (model conformance, no verdict: the evaluator agrees with direct evaluation but not with Select -- then C02's
       \*  check reports the direct leg)
       /\ Drift(IsNaN(e.x) \/ e.panic \/ e.seg # e.dseg \/ e.seg = E!P!SelectScan(ends, e.x), "evaluator-vs-Select")
       \* shape: the hidden cursor moves as the model says
       /\ Drift(e.off = off' /\ e.tail = Len(ends) - 1 - off' /\ (e.last = last' \/ (IsNaN(e.last) /\ IsNaN(last')))
                /\ (e.panic \/ e.seg = sel'), "cursor")

TraceNext == TraceNew \/ TraceQuery
TraceSpec == TraceInit /\ [][TraceNext]_<< l, ends, off, last, sel, arg, nanseen >>
=============================================================================
