-------------------------- MODULE Trace_Evaluator ---------------------------
(***************************************************************************)
(* Real PiecewiseEvaluator sessions against Evaluator.tla (C03, C16) and,  *)
(* through the direct evaluation logged next to every query, against       *)
(* Select (C02).  Events:                                                  *)
(*   new   {ends}                                                          *)
(*   query {x, seg, arg, valok, panic, off, tail, last, dseg}              *)
(* seg/arg: piece that answered and the argument bits it received (probe   *)
(* pieces); dseg: piece chosen by a fresh Piecewise::evaluate(x);          *)
(* off/tail/last: the hook's view of the hidden cursor.                    *)
(***************************************************************************)
EXTENDS TraceBase, F64

CONSTANT JudgeEvaluator    \* FALSE: only the direct-evaluation leg is judged (C02); the evaluator legs belong to C03/C16

VARIABLES ends, off, last, sel, arg

E == INSTANCE Evaluator WITH NaNGuard <- TRUE

TraceInit == TallyInit /\ l = 1 /\ ends = << PosZero >> /\ off = 0 /\ last = PosZero /\ sel = 0 /\ arg = PosZero

TraceNew ==
    /\ IsEvent("new")
    /\ E!New(Rec[l].ends)

TraceQuery ==
    /\ IsEvent("query")
    /\ LET e == Rec[l] IN
       /\ E!Query(e.x)
       \* contract: whatever the history, the answer is the piece Select names, given x verbatim
       /\ Judge(~e.panic, "panic")
       /\ Judge(~JudgeEvaluator \/ IsNaN(e.x) \/ e.panic \/
                (e.seg = E!P!SelectScan(ends, e.x) /\ e.arg = e.x /\ e.valok), "evaluator-vs-Select")
       /\ Judge(e.panic \/ e.dseg = E!P!SelectScan(ends, e.x), "direct-vs-Select")
       \* shape: the hidden cursor moves as the model says
       /\ Drift(e.off = off' /\ e.tail = Len(ends) - 1 - off' /\ (e.last = last' \/ (IsNaN(e.last) /\ IsNaN(last')))
                /\ (e.panic \/ e.seg = sel'), "cursor")

TraceNext == TraceNew \/ TraceQuery
TraceSpec == TraceInit /\ [][TraceNext]_<< l, ends, off, last, sel, arg >>
=============================================================================
