CONSTANTS Strict = FALSE  Scope = {"vnext"}
INIT TraceInit
NEXT TraceNext
POSTCONDITION AllConsumed
CHECK_DEADLOCK FALSE
