CONSTANTS Strict = FALSE  Scope = {"query"}
INIT TraceInit
NEXT TraceNext
POSTCONDITION AllConsumed
CHECK_DEADLOCK FALSE
