------------------------------ MODULE Trace_Eval ----------------------------
(***************************************************************************)
(* C01 on real executions.  Events                                         *)
(*   eval {form, c, x, y}   form in "poly" (Poly0..8), "polyn" (PolyN),    *)
(*                          "log" (Log<PolyK>), "logn" (Log<PolyN>)        *)
(* Tallies: 11 polynomial events in scope, 12 of them in the exact regime   *)
(* (degree >= 2, x # 0), 13 log events in scope.                           *)
(* c, x, y are bit patterns; the exact value sum c_i x^i, the bound and    *)
(* the exactness condition are computed here over BigRat.                  *)
(***************************************************************************)
EXTENDS TraceBase, BigPoly

TraceInit == TallyInit /\ l = 1

PolyOK(e) ==
    LET c == Vals(e.c)  x == Val(e.x)
        maxpow == IF e.form = "poly" THEN 8 ELSE (IF Len(c) > 1 THEN Len(c) - 1 ELSE 1)
    IN  IF ~TermsInScope(c, x, maxpow) THEN TRUE     \* out of scope: not judged
        ELSE /\ Tally(11, TRUE) /\ Tally(12, ExactCase(c, x) /\ Len(c) > 2 /\ x # BRZero)
             /\ IsFinite(e.y)
             /\ LET y == Val(e.y)  exact == B!Eval(c, x) IN
                /\ LeTracked(BRAbs(BRSub(y, exact)), EvalBound(c, BRAbs(x)))
                /\ ExactCase(c, x) => y = exact

\* Log<P>: p(ln v).  L = ln v to 2^-230; the library computes s = fl(ln v), |s - L| <= 1 ulp assumed of libm.
LogOK(e) ==
    LET c == Vals(e.c)  v == Val(e.x)
        L == LnApprox(v)
        ulpL == Ulp(Fl(L))
        A == BRAdd(BRAbs(L), BRAdd(ulpL, ErrAbs))
        dc == B!AbsSeq(B!Deriv(c))
    IN  IF ~TermsInScope(c, A, IF Len(c) > 1 /\ Len(c) - 1 > 8 THEN Len(c) - 1 ELSE 8) THEN TRUE
        ELSE /\ Tally(13, TRUE)
             /\ IsFinite(e.y)
             /\ LeTracked(BRAbs(BRSub(Val(e.y), B!Eval(c, L))),
                          BRAdd(EvalBound(c, A), BRMul(BRAdd(ulpL, BRMul(BR(2), ErrAbs)), B!Eval(dc, A))))
             /\ (v = BROne) => e.y = (IF Len(c) = 0 THEN PosZero ELSE e.c[1]) \/ (IsZero(e.y) /\ Val(e.c[1]) = BRZero)

TraceEval ==
    /\ IsEvent("eval")
    /\ LET e == Rec[l] IN
       /\ Judge(AllFinite(e.c) /\ IsFinite(e.x), "harness: non-finite input")
       /\ IF e.form \in { "poly", "polyn" }
          THEN /\ Judge(PolyOK(e), "polynomial value outside the C01 bound")
               \* shape: the value is what the scheme of src/poly.rs computes, operation by operation
               /\ Drift(~IsFinite(e.y) \/ LET m == IF e.form = "poly" THEN FP!Estrin(e.c, e.x) ELSE FP!HornerFma(e.c, e.x) IN
                                          m = e.y \/ (IsZero(m) /\ IsZero(e.y)), "evaluation scheme")
          ELSE Judge(BRGt(Val(e.x), BRZero), "harness: v <= 0") /\ Judge(LogOK(e), "log-polynomial value outside the C01 bound")

TraceNext == TraceEval
=============================================================================
