CONSTANTS Strict = FALSE  Scope = {"integrate"}
INIT TraceInit
NEXT TraceNext
POSTCONDITION AllConsumed
CHECK_DEADLOCK FALSE
