------------------------------ MODULE AP_Merge ------------------------------
(***************************************************************************)
(* Symbolic check of the merge loop with Apalache: breakpoints are         *)
(* arbitrary integers (not ranks from a small set), lists of length <= 3,  *)
(* a symbolic argument x.  This removes the data-independence argument     *)
(* for that size: the pointwise contract holds for ALL integer breakpoints.*)
(* The loop is written out here (Apalache needs typed, first-order         *)
(* definitions); it is the same three-way case split as Merge!Step.        *)
(***************************************************************************)
EXTENDS Integers, Sequences, Apalache

VARIABLES
    \* @type: Seq(Int);
    fe,
    \* @type: Seq(Int);
    ge,
    \* @type: Int;
    i,
    \* @type: Int;
    j,
    \* @type: Seq(<<Int, Int, Int>>);
    res,
    \* @type: Str;
    pc,
    \* @type: Int;
    x

\* @type: (Seq(Int)) => Bool;
NonDecr(s) == \A k \in DOMAIN s : \A m \in DOMAIN s : k < m => s[k] <= s[m]

\* @type: (Seq(Int), Int) => Int;
Select(s, y) ==
    IF \E k \in DOMAIN s : s[k] > y
    THEN CHOOSE k \in DOMAIN s : s[k] > y /\ \A m \in DOMAIN s : m < k => ~(s[m] > y)
    ELSE Len(s)

Init ==
    /\ fe = Gen(3) /\ ge = Gen(3)
    /\ Len(fe) >= 1 /\ Len(ge) >= 1
    /\ NonDecr(fe) /\ NonDecr(ge)
    /\ x = Gen(1)
    /\ i = 1 /\ j = 1 /\ res = << >> /\ pc = "loop"

Min(a, b) == IF a < b THEN a ELSE b

Step ==
    /\ pc = "loop"
    /\ LET a == fe[i]  b == ge[j]  aLast == i >= Len(fe)  bLast == j >= Len(ge) IN
       /\ IF a < b
          THEN IF aLast THEN j' = j + 1 /\ i' = i /\ res' = Append(res, << b, i, j >>)
                        ELSE i' = i + 1 /\ j' = j /\ res' = Append(res, << a, i, j >>)
          ELSE IF b < a
          THEN IF bLast THEN i' = i + 1 /\ j' = j /\ res' = Append(res, << a, i, j >>)
                        ELSE j' = j + 1 /\ i' = i /\ res' = Append(res, << b, i, j >>)
          ELSE i' = Min(Len(fe), i + 1) /\ j' = Min(Len(ge), j + 1) /\ res' = Append(res, << a, i, j >>)
       /\ pc' = IF aLast /\ bLast THEN "done" ELSE "loop"
    /\ UNCHANGED << fe, ge, x >>

Stutter == pc = "done" /\ UNCHANGED << fe, ge, i, j, res, pc, x >>
Next == Step \/ Stutter

\* Select on the result's breakpoints (res[k][1])
SelectRes(y) ==
    IF \E k \in DOMAIN res : res[k][1] > y
    THEN CHOOSE k \in DOMAIN res : res[k][1] > y /\ \A m \in DOMAIN res : m < k => ~(res[m][1] > y)
    ELSE Len(res)

InBounds == pc = "loop" => (i >= 1 /\ i <= Len(fe) /\ j >= 1 /\ j <= Len(ge))
Pointwise ==
    pc = "done" =>
        LET r == res[SelectRes(x)] IN r[2] = Select(fe, x) /\ r[3] = Select(ge, x)
Shape == pc = "done" =>
    /\ Len(res) >= 1 /\ Len(res) <= Len(fe) + Len(ge) - 1
    /\ \A k \in DOMAIN res : \A m \in DOMAIN res : k < m => res[k][1] <= res[m][1]
Inv == InBounds /\ Pointwise /\ Shape
=============================================================================
