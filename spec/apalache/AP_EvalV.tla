------------------------------ MODULE AP_EvalV ------------------------------
(***************************************************************************)
(* Symbolic check of evaluate_v's forward-only cursor with Apalache: up to *)
(* 4 breakpoints that are arbitrary integers, every fed argument an        *)
(* arbitrary integer (in ANY order, not only non-decreasing), batches of   *)
(* up to 6 items.  Same rules as EvalV.tla (NaN-free part), first-order.   *)
(* Contract (C12 b): the piece used is the one direct evaluation selects   *)
(* for the running maximum of the arguments fed so far; for non-decreasing *)
(* input the running maximum is the argument itself (C12 a).               *)
(***************************************************************************)
EXTENDS Integers, Sequences, Apalache

VARIABLES
    \* @type: Seq(Int);
    ends,
    \* @type: Int;
    prev,
    \* @type: Int;
    runmax,
    \* @type: Int;
    fed,
    \* @type: Int;
    sel

\* @type: (Seq(Int), Int) => Int;
Select(s, y) ==
    IF \E k \in DOMAIN s : s[k] > y
    THEN CHOOSE k \in DOMAIN s : s[k] > y /\ \A m \in DOMAIN s : m < k => ~(s[m] > y)
    ELSE Len(s)

Init ==
    /\ ends = Gen(4) /\ Len(ends) >= 1
    /\ \A k \in DOMAIN ends : \A m \in DOMAIN ends : k < m => ends[k] <= ends[m]
    /\ prev = 1 /\ runmax = ends[1] /\ fed = 0 /\ sel = 0

\* segments[prev..].position(|seg| x < seg.end): the least k >= prev with ends[k] > x, else the last piece
Feed(x) ==
    /\ \E k \in 1..4 :
          /\ k >= prev /\ k <= Len(ends)
          /\ (ends[k] > x \/ k = Len(ends))
          /\ \A m \in 1..4 : (m >= prev /\ m < k) => ~(ends[m] > x)
          /\ prev' = k
    /\ sel' = prev'
    /\ runmax' = IF fed = 0 \/ runmax < x THEN x ELSE runmax
    /\ fed' = fed + 1
    /\ UNCHANGED ends

Next == \E x \in Int : Feed(x)

ContractB == fed > 0 => sel = Select(ends, runmax)
TypeOK == prev >= 1 /\ prev <= Len(ends)
Inv == ContractB /\ TypeOK
=============================================================================
