---------------------------- MODULE AP_Evaluator ----------------------------
(***************************************************************************)
(* Symbolic check of the evaluator cursor with Apalache: up to 4           *)
(* breakpoints that are arbitrary integers, every query an arbitrary       *)
(* integer, histories of up to 6 queries.  Same rules as Evaluator.tla     *)
(* (NaN-free part), written first-order for Apalache.                      *)
(***************************************************************************)
EXTENDS Integers, Sequences, Apalache

VARIABLES
    \* @type: Seq(Int);
    ends,
    \* @type: Int;
    off,
    \* @type: Int;
    last,
    \* @type: Int;
    sel,
    \* @type: Int;
    arg

\* @type: (Seq(Int), Int) => Int;
Select(s, y) ==
    IF \E k \in DOMAIN s : s[k] > y
    THEN CHOOSE k \in DOMAIN s : s[k] > y /\ \A m \in DOMAIN s : m < k => ~(s[m] > y)
    ELSE Len(s)

Front == Len(ends) - 1

Init ==
    /\ ends = Gen(4) /\ Len(ends) >= 1
    /\ \A k \in DOMAIN ends : \A m \in DOMAIN ends : k < m => ends[k] <= ends[m]
    /\ off = 0 /\ last = ends[1] /\ sel = 0 /\ arg = ends[1]

\* forward scan from the cursor: the least k >= off with k = Front or ends[k+1] > x
Forward(x) ==
    /\ x >= last
    /\ \E k \in 0..3 :
          /\ k >= off /\ k <= Front
          /\ (k = Front \/ ends[k + 1] > x)
          /\ \A m \in 0..3 : (m >= off /\ m < k) => ~(ends[m + 1] > x)
          /\ off' = k

\* backward search: the greatest i <= off with ends[i] <= x, else 0
Backward(x) ==
    /\ x < last
    /\ \E i \in 0..3 :
          /\ i <= off
          /\ (i = 0 \/ ends[i] <= x)
          /\ \A m \in 1..3 : (m <= off /\ m > i) => ~(ends[m] <= x)
          /\ off' = i

Next ==
    \E x \in Int :
        /\ (Forward(x) \/ Backward(x))
        /\ last' = x /\ sel' = off' + 1 /\ arg' = x
        /\ UNCHANGED ends

Contract == sel # 0 => sel = Select(ends, arg)
TypeOK == off >= 0 /\ off <= Front
Inv == Contract /\ TypeOK
=============================================================================
