---------------------------- MODULE AP_EvalVInd -----------------------------
(***************************************************************************)
(* Unbounded batches: evaluate_v's forward-only cursor satisfies an        *)
(* INDUCTIVE invariant that implies C12 (b): the piece used is the one     *)
(* direct evaluation selects for the running maximum of everything fed so  *)
(* far.  Init => IndInv (length 0) and IndInv /\ Next => IndInv' from an   *)
(* arbitrary IndInv state (length 1): every batch of every length, <= 4    *)
(* breakpoints that are arbitrary integers, arbitrary integer arguments in *)
(* any order (NaN-free).                                                   *)
(***************************************************************************)
EXTENDS Integers, Sequences, Apalache

VARIABLES
    \* @type: Seq(Int);
    ends,
    \* @type: Int;
    prev,
    \* @type: Int;
    runmax,
    \* @type: Bool;
    started,
    \* @type: Int;
    sel

\* @type: (Seq(Int), Int) => Int;
Select(s, y) ==
    IF \E k \in DOMAIN s : s[k] > y
    THEN CHOOSE k \in DOMAIN s : s[k] > y /\ \A m \in DOMAIN s : m < k => ~(s[m] > y)
    ELSE Len(s)

Sorted == \A k \in DOMAIN ends : \A m \in DOMAIN ends : k < m => ends[k] <= ends[m]

Init ==
    /\ ends = Gen(4) /\ Len(ends) >= 1 /\ Sorted
    /\ prev = 1 /\ runmax = ends[1] /\ started = FALSE /\ sel = 0

Feed(x) ==
    /\ \E k \in 1..4 :
          /\ k >= prev /\ k <= Len(ends)
          /\ (ends[k] > x \/ k = Len(ends))
          /\ \A m \in 1..4 : (m >= prev /\ m < k) => ~(ends[m] > x)
          /\ prev' = k
    /\ sel' = prev'
    /\ runmax' = IF ~started \/ runmax < x THEN x ELSE runmax
    /\ started' = TRUE
    /\ UNCHANGED ends

Next == \E x \in Int : Feed(x)

ContractB == started => sel = Select(ends, runmax)
IndInv ==
    /\ Len(ends) >= 1 /\ Sorted
    /\ prev >= 1 /\ prev <= Len(ends)
    /\ ~started => prev = 1
    /\ started => /\ sel = prev
                  /\ \A m \in DOMAIN ends : m < prev => ends[m] <= runmax
                  /\ prev < Len(ends) => ends[prev] > runmax
    /\ ContractB

IndInit ==
    /\ ends = Gen(4)
    /\ prev \in 1..4 /\ sel \in 0..4
    /\ runmax \in Int /\ started \in BOOLEAN
    /\ IndInv
=============================================================================
