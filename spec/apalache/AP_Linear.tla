----------------------------- MODULE AP_Linear ------------------------------
(***************************************************************************)
(* Symbolic check of the structural part of C06 with Apalache: `linear`    *)
(* over up to 6 knots whose abscissae are arbitrary integers in any order. *)
(* The fold of Linear.tla (prev abscissa forced to the running maximum,    *)
(* one segment per consecutive pair), first-order and typed; the ordinates *)
(* play no part in the breakpoints and are left out.                       *)
(***************************************************************************)
EXTENDS Integers, Sequences, Apalache

VARIABLES
    \* @type: Seq(Int);
    xs,
    \* @type: Int;
    i,
    \* @type: Int;
    prevx,
    \* @type: Seq(Int);
    ends

Init ==
    /\ xs = Gen(6) /\ Len(xs) >= 2
    /\ i = 2 /\ prevx = xs[1] /\ ends = << >>

Max(a, b) == IF a < b THEN b ELSE a

Step ==
    /\ i <= Len(xs)
    /\ LET kx == Max(prevx, xs[i]) IN
       /\ ends' = Append(ends, kx)
       /\ prevx' = kx
    /\ i' = i + 1
    /\ UNCHANGED xs

Next == Step \/ (i > Len(xs) /\ UNCHANGED << xs, i, prevx, ends >>)

\* every breakpoint so far is the maximum of the raw abscissae up to and including its right knot
IsRunMax(j) ==
    /\ \A m \in DOMAIN xs : m <= j + 1 => xs[m] <= ends[j]
    /\ \E m \in DOMAIN xs : m <= j + 1 /\ xs[m] = ends[j]
Inv ==
    /\ Len(ends) = i - 2
    /\ \A j \in DOMAIN ends : IsRunMax(j)
    /\ \A j \in DOMAIN ends : \A m \in DOMAIN ends : j < m => ends[j] <= ends[m]
    /\ (i > Len(xs)) => Len(ends) = Len(xs) - 1
=============================================================================
