-------------------------- MODULE AP_EvaluatorInd ---------------------------
(***************************************************************************)
(* Unbounded histories: Evaluator.tla's reader's invariant (I1, I2 with    *)
(* the initial wart) is INDUCTIVE and implies the contract.  Two Apalache  *)
(* runs: Init => IndInv (length 0) and IndInv /\ Next => IndInv' from an   *)
(* arbitrary state satisfying IndInv (--init=IndInit, length 1).  Together *)
(* they cover every query history of every length, for up to 4 breakpoints *)
(* that are arbitrary integers and arbitrary integer queries (NaN-free).   *)
(***************************************************************************)
EXTENDS Integers, Sequences, Apalache

VARIABLES
    \* @type: Seq(Int);
    ends,
    \* @type: Int;
    off,
    \* @type: Int;
    last,
    \* @type: Int;
    sel,
    \* @type: Int;
    arg

\* @type: (Seq(Int), Int) => Int;
Select(s, y) ==
    IF \E k \in DOMAIN s : s[k] > y
    THEN CHOOSE k \in DOMAIN s : s[k] > y /\ \A m \in DOMAIN s : m < k => ~(s[m] > y)
    ELSE Len(s)

Front == Len(ends) - 1
Sorted == \A k \in DOMAIN ends : \A m \in DOMAIN ends : k < m => ends[k] <= ends[m]

Init ==
    /\ ends = Gen(4) /\ Len(ends) >= 1 /\ Sorted
    /\ off = 0 /\ last = ends[1] /\ sel = 0 /\ arg = ends[1]

Forward(x) ==
    /\ x >= last
    /\ \E k \in 0..3 :
          /\ k >= off /\ k <= Front
          /\ (k = Front \/ ends[k + 1] > x)
          /\ \A m \in 0..3 : (m >= off /\ m < k) => ~(ends[m + 1] > x)
          /\ off' = k

Backward(x) ==
    /\ x < last
    /\ \E i \in 0..3 :
          /\ i <= off
          /\ (i = 0 \/ ends[i] <= x)
          /\ \A m \in 1..3 : (m <= off /\ m > i) => ~(ends[m] <= x)
          /\ off' = i

Next ==
    \E x \in Int :
        /\ (Forward(x) \/ Backward(x))
        /\ last' = x /\ sel' = off' + 1 /\ arg' = x
        /\ UNCHANGED ends

TypeOK == off >= 0 /\ off <= Front /\ sel >= 0 /\ sel <= Len(ends)
I1 == \A i \in DOMAIN ends : i <= off => ends[i] <= last
I2 == off < Front => (ends[off + 1] > last \/ (off = 0 /\ last = ends[1]))
Contract == sel # 0 => sel = Select(ends, arg)
\* after a query the observation is the cursor and the argument is `last`
Obs == sel # 0 => (sel = off + 1 /\ arg = last /\ (off < Front => ends[off + 1] > last))

IndInv == Len(ends) >= 1 /\ Sorted /\ TypeOK /\ I1 /\ I2 /\ Obs /\ Contract

\* an arbitrary state satisfying the invariant
IndInit ==
    /\ ends = Gen(4)
    /\ off \in 0..3 /\ sel \in 0..4
    /\ last \in Int /\ arg \in Int
    /\ IndInv
=============================================================================
