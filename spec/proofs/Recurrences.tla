---------------------------- MODULE Recurrences -----------------------------
(***************************************************************************)
(* Unbounded (symbolic) versions of the coefficient identities that        *)
(* MC_PolyAlgebra checks on a grid, proved with TLAPS (tlapm, SMT back     *)
(* end).  Everything is linear integer arithmetic once denominators are    *)
(* cleared, so the statements are over arbitrary integers.                 *)
(*                                                                         *)
(* 1. General degrees (src/log_poly.rs, Log<PolyN>, N # 4): with           *)
(*    q_n = p_n and q_i = p_i - (i+1) q_{i+1}, the polynomial q satisfies  *)
(*    q + q' = p coefficient-wise, i.e. d/dv [ v q(ln v) ] = p(ln v).      *)
(*    Stated here for degree 8 (lower degrees are the same statement with  *)
(*    the top coefficients zero).                                          *)
(* 2. The quartic special form: with a = -p0, 2b = a + p1, 3c = b - p2,    *)
(*    4d = c + p3, u = 24 (d - p4), the coefficients of G - G' in x are    *)
(*    p0, -p1, p2, -p3, p4 (times the cleared denominators).               *)
(* 3. Polynomial integration: if (i+1) F_{i+1} = c_i then the formal       *)
(*    derivative of F is c.                                                *)
(***************************************************************************)
EXTENDS Integers, TLAPS

THEOREM GeneralRecurrence ==
    ASSUME NEW p0 \in Int, NEW p1 \in Int, NEW p2 \in Int, NEW p3 \in Int, NEW p4 \in Int,
           NEW p5 \in Int, NEW p6 \in Int, NEW p7 \in Int, NEW p8 \in Int,
           NEW q0 \in Int, NEW q1 \in Int, NEW q2 \in Int, NEW q3 \in Int, NEW q4 \in Int,
           NEW q5 \in Int, NEW q6 \in Int, NEW q7 \in Int, NEW q8 \in Int,
           q8 = p8, q7 = p7 - 8 * q8, q6 = p6 - 7 * q7, q5 = p5 - 6 * q6, q4 = p4 - 5 * q5,
           q3 = p3 - 4 * q4, q2 = p2 - 3 * q3, q1 = p1 - 2 * q2, q0 = p0 - q1
    PROVE  /\ q0 + 1 * q1 = p0 /\ q1 + 2 * q2 = p1 /\ q2 + 3 * q3 = p2 /\ q3 + 4 * q4 = p3
           /\ q4 + 5 * q5 = p4 /\ q5 + 6 * q6 = p5 /\ q6 + 7 * q7 = p6 /\ q7 + 8 * q8 = p7 /\ q8 = p8
  <1>1. q0 + 1 * q1 = p0 BY Z3
  <1>2. q1 + 2 * q2 = p1 BY Z3
  <1>3. q2 + 3 * q3 = p2 BY Z3
  <1>4. q3 + 4 * q4 = p3 BY Z3
  <1>5. q4 + 5 * q5 = p4 BY Z3
  <1>6. q5 + 6 * q6 = p5 BY Z3
  <1>7. q6 + 7 * q7 = p6 BY Z3
  <1>8. q7 + 8 * q8 = p7 BY Z3
  <1>9. q8 = p8 OBVIOUS
  <1> QED BY <1>1, <1>2, <1>3, <1>4, <1>5, <1>6, <1>7, <1>8, <1>9

THEOREM QuarticForm ==
    ASSUME NEW p0 \in Int, NEW p1 \in Int, NEW p2 \in Int, NEW p3 \in Int, NEW p4 \in Int,
           NEW a \in Int, NEW b \in Int, NEW c \in Int, NEW d \in Int, NEW u \in Int,
           a = -p0, 2 * b = a + p1, 3 * c = b - p2, 4 * d = c + p3, u = 24 * (d - p4)
    PROVE  /\ -a = p0                     \* x^0 coefficient of G - G'
           /\ a - 2 * b = -p1             \* x^1
           /\ b - 3 * c = p2              \* x^2
           /\ c - 4 * d = -p3             \* x^3
           /\ 24 * d - u = 24 * p4        \* x^4  (d - u/24 = p4)
  OBVIOUS

THEOREM IntegrationInverse ==
    ASSUME NEW c0 \in Int, NEW c1 \in Int, NEW c2 \in Int, NEW c3 \in Int,
           NEW F1 \in Int, NEW F2 \in Int, NEW F3 \in Int, NEW F4 \in Int,
           1 * F1 = c0, 2 * F2 = c1, 3 * F3 = c2, 4 * F4 = c3
    PROVE  << 1 * F1, 2 * F2, 3 * F3, 4 * F4 >> = << c0, c1, c2, c3 >>
  OBVIOUS
=============================================================================
