//! Order-theoretic mechanisms: segment selection (C02), the stateful evaluator (C03, C16),
//! evaluate_v (C12), the +/- merge (C13), Arbitrary (C19).

use crate::common::*;
use arbitrary::{Arbitrary, Unstructured};
use piecewise_polynomial::*;
use serde_json::{json, Value};
use std::collections::{HashMap, VecDeque};

fn ranks(v: &Value) -> Vec<i64> {
    v.as_array().unwrap().iter().map(|x| x.as_i64().unwrap()).collect()
}

/// Outcome of a replay run: what was executed and what disagreed.
#[derive(Default)]
pub struct ReplayReport {
    pub cases: usize,
    pub runs: usize,
    pub nontrivial: usize,
    pub violations: Vec<Value>,
    pub drift: Vec<Value>,
    pub samples: Vec<Value>,
}
impl ReplayReport {
    pub fn to_json(&self) -> Value {
        json!({"cases": self.cases, "runs": self.runs, "nontrivial": self.nontrivial,
               "violations": self.violations, "drift": self.drift, "samples": self.samples})
    }
    fn viol(&mut self, v: Value) {
        // at most 50 per kind: each kind states a different clause, and a check keeps only the kinds it owns
        let k = v["kind"].as_str().unwrap_or("").to_string();
        if self.violations.iter().filter(|w| w["kind"].as_str().unwrap_or("") == k).count() < 50 {
            self.violations.push(v);
        }
    }
    fn drf(&mut self, v: Value) {
        if self.drift.len() < 20 {
            self.drift.push(v);
        }
    }
}

fn rank_bounds(lines: &[Value], keys: &[&str]) -> (i64, i64) {
    let (mut lo, mut hi) = (i64::MAX, i64::MIN);
    for l in lines {
        for k in keys {
            let it: Vec<i64> = match &l[*k] {
                Value::Array(a) => a.iter().filter_map(|x| x.as_i64()).collect(),
                Value::Number(n) => vec![n.as_i64().unwrap()],
                _ => vec![],
            };
            for r in it {
                if r != NAN_RANK {
                    lo = lo.min(r);
                    hi = hi.max(r);
                }
            }
        }
    }
    (lo, hi)
}

// ===================================================================== C02 select

/// One direct evaluation on probe pieces: (observed piece, argument bits, value ok, panic)
pub fn observe_direct(pw: &Piecewise<Probe>, x: f64) -> (u32, u64, bool, Option<String>) {
    probe_take();
    match guarded(|| pw.evaluate(x)) {
        Ok(y) => {
            let log = probe_take();
            if log.len() != 1 {
                return (0, 0, false, None);
            }
            let (id, xb) = log[0];
            (id, xb, y.to_bits() == probe_value(id, f64::from_bits(xb)).to_bits(), None)
        }
        Err(m) => (0, 0, false, Some(m)),
    }
}

/// lines: {ends:[rank..], xs:[rank..], sel:[idx..]}
pub fn replay_select(lines: &[Value], seed: u64) -> ReplayReport {
    let mut rep = ReplayReport::default();
    let (lo, hi) = rank_bounds(lines, &["ends", "xs"]);
    let embs = embeddings(lo, hi, seed);
    for l in lines {
        rep.cases += 1;
        let ends = ranks(&l["ends"]);
        let xs = ranks(&l["xs"]);
        let sel = ranks(&l["sel"]);
        for e in &embs {
            let fe: Vec<f64> = ends.iter().map(|&r| e.at(r)).collect();
            let pw = probe_pw(&fe);
            // value-level check with real polynomial pieces too: Poly0(id)
            let pw0 = Piecewise { segments: fe.iter().enumerate().map(|(i, &en)| Segment { end: en, poly: Poly0(i as f64 + 1.0) }).collect() };
            for (k, &xr) in xs.iter().enumerate() {
                let x = e.arg(xr);
                rep.runs += 1;
                let (id, xb, vok, pan) = observe_direct(&pw, x);
                let want = sel[k] as u32;
                let v0 = guarded(|| pw0.evaluate(x));
                let ok = pan.is_none() && id == want && xb == x.to_bits() && vok && v0 == Ok(want as f64);
                if want as usize != ends.len() || ends.iter().any(|&r| r > xr) {
                    rep.nontrivial += 1;
                }
                if !ok {
                    rep.viol(json!({"kind":"select","embedding":e.name,"ends_rank":ends,"x_rank":xr,
                        "ends":fe.iter().map(|&v| hex(v)).collect::<Vec<_>>(),"x":hex(x),
                        "expected_piece":want,"observed_piece":id,"arg_bits_ok":xb==x.to_bits(),"panic":pan,
                        "poly0_value":v0.ok()}));
                }
            }
        }
        if rep.samples.len() < 3 {
            rep.samples.push(l.clone());
        }
    }
    rep
}

// ===================================================================== C03/C16 evaluator

pub struct EvObs {
    pub seg: u32,
    pub arg: u64,
    pub val_ok: bool,
    pub panic: Option<String>,
    pub state: (usize, usize, u64),
}

pub fn ev_query(ev: &mut PiecewiseEvaluator<'_, Probe>, x: f64) -> EvObs {
    probe_take();
    let r = guarded(|| ev.evaluate(x));
    let log = probe_take();
    let state = ev.verif_state();
    match r {
        Ok(y) if log.len() == 1 => {
            let (id, xb) = log[0];
            EvObs { seg: id, arg: xb, val_ok: y.to_bits() == probe_value(id, f64::from_bits(xb)).to_bits(), panic: None, state }
        }
        Ok(_) => EvObs { seg: 0, arg: 0, val_ok: false, panic: None, state },
        Err(m) => EvObs { seg: 0, arg: 0, val_ok: false, panic: Some(m), state },
    }
}

/// lines: {ends, hist:[rank..], x, sel, off, last}: one edge of the model's state graph.
pub fn replay_evaluator(lines: &[Value], seed: u64) -> ReplayReport {
    let mut rep = ReplayReport::default();
    let (lo, hi) = rank_bounds(lines, &["ends", "hist", "x"]);
    let embs = embeddings(lo, hi, seed);
    let mut distinct: std::collections::HashSet<(Vec<i64>, i64, i64, i64)> = Default::default();
    for l in lines {
        rep.cases += 1;
        let ends = ranks(&l["ends"]);
        let hist = ranks(&l["hist"]);
        let xr = l["x"].as_i64().unwrap();
        let sel = l["sel"].as_u64().unwrap() as u32;
        let off = l["off"].as_u64().unwrap() as usize;
        let lastr = l["last"].as_i64().unwrap();
        // non-trivial: the query moved the cursor or needed the backward branch
        let prev_last = hist.last().copied().unwrap_or(ends[0]);
        if xr != NAN_RANK && (xr < prev_last || off != 0) {
            distinct.insert((ends.clone(), off as i64, prev_last, xr));
        }
        for e in &embs {
            rep.runs += 1;
            let fe: Vec<f64> = ends.iter().map(|&r| e.at(r)).collect();
            let pw = probe_pw(&fe);
            let mut ev = PiecewiseEvaluator::new(&pw.segments);
            let mut pan = None;
            for &h in &hist {
                let o = ev_query(&mut ev, e.arg(h));
                if o.panic.is_some() {
                    pan = o.panic;
                }
            }
            let x = e.arg(xr);
            let o = ev_query(&mut ev, x);
            let (did, _, dok, dpan) = observe_direct(&pw, x);
            let panicked = pan.is_some() || o.panic.is_some();
            // one verdict per clause, each tagged with the clause it states (the check keeps the clauses of ITS property):
            //   evaluator-panic                 a query panicked                                   (C03, C16)
            //   evaluator-vs-direct             answer differs from Piecewise::evaluate's          (C03: "exactly the bits
            //                                   that direct evaluation returns")
            //   evaluator-vs-direct-after-nan   the same, in a history that contains a NaN query   (C16)
            //   direct-vs-model                 Piecewise::evaluate differs from Select            (C02's clause; C02 has its
            //                                   own replay, so no check of this replay owns it)
            let after_nan = hist.iter().any(|&h| h == NAN_RANK);
            let mut bad: Vec<&str> = vec![];
            if panicked {
                bad.push("evaluator-panic");
            } else if xr != NAN_RANK {
                if dpan.is_some() || !(o.seg == did && o.arg == x.to_bits() && o.val_ok && dok) {
                    bad.push("evaluator-vs-direct");
                    if after_nan {
                        bad.push("evaluator-vs-direct-after-nan");
                    }
                }
                if did != sel {
                    bad.push("direct-vs-model");
                }
            }
            for kind in &bad {
                rep.viol(json!({"kind":kind,"embedding":e.name,"ends_rank":ends,"hist_rank":hist,"x_rank":xr,
                    "ends":fe.iter().map(|&v| hex(v)).collect::<Vec<_>>(),"x":hex(x),
                    "expected_piece":sel,"observed_piece":o.seg,"direct_piece":did,"arg_bits_ok":o.arg==x.to_bits(),
                    "panic":o.panic.clone().or(pan.clone())}));
            }
            if !bad.is_empty() {
            } else if xr != NAN_RANK && o.seg != sel {
                // evaluator and direct evaluation agree with each other but not with the model
                rep.drf(json!({"kind":"evaluator-vs-model","embedding":e.name,"ends_rank":ends,"hist_rank":hist,"x_rank":xr,"expected_piece":sel,"observed_piece":o.seg}));
            } else {
                let want_last = e.arg(lastr).to_bits();
                let shape_ok = o.state.0 == off
                    && o.state.1 == fe.len() - 1 - off
                    // (the initial `last` is a breakpoint, later ones are arguments: under a signed-zero
                    //  embedding the two zeros differ in bits, never in value)
                    && (o.state.2 == want_last
                        || (f64::from_bits(o.state.2) == 0.0 && f64::from_bits(want_last) == 0.0)
                        || (lastr == NAN_RANK && f64::from_bits(o.state.2).is_nan()))
                    && (xr != NAN_RANK || o.seg == sel);
                if !shape_ok {
                    rep.drf(json!({"kind":"evaluator-shape","embedding":e.name,"ends_rank":ends,"hist_rank":hist,"x_rank":xr,
                        "model":{"off":off,"last_rank":lastr,"sel":sel},
                        "impl":{"off":o.state.0,"tail":o.state.1,"last":format!("{:016x}",o.state.2),"seg":o.seg}}));
                }
            }
        }
        if rep.samples.len() < 3 && !hist.is_empty() {
            rep.samples.push(l.clone());
        }
    }
    rep.nontrivial = distinct.len();
    rep
}

/// The query alphabet for a list of ends: every end, its two neighbours, midpoints,
/// below all, above all, +-inf (and NaN when asked).
pub fn alphabet(ends: &[f64], with_nan: bool) -> Vec<f64> {
    let mut a: Vec<f64> = Vec::new();
    let mut push = |x: f64| {
        if !a.iter().any(|y: &f64| y.to_bits() == x.to_bits()) {
            a.push(x);
        }
    };
    for &e in ends {
        push(e);
        if e == 0.0 {
            // the other zero: numerically the same breakpoint, different bits
            push(-e);
        }
        if e.is_finite() {
            push(e.next_up());
            push(e.next_down());
        }
    }
    for w in ends.windows(2) {
        let m = w[0] / 2.0 + w[1] / 2.0;
        if m.is_finite() {
            push(m);
        }
    }
    push(f64::NEG_INFINITY);
    push(f64::INFINITY);
    push(-f64::MAX);
    push(f64::MAX);
    if with_nan {
        push(f64::NAN);
    }
    a
}

fn ev_event(x: f64, o: &EvObs, did: u32, dpan: &Option<String>) -> Value {
    json!({"ev":"query","x":jb(x),"seg":o.seg,"arg":jbits(o.arg),"valok":o.val_ok,
           "panic": o.panic.is_some() || dpan.is_some(),
           "off":o.state.0,"tail":o.state.1,"last":jbits(o.state.2),"dseg":did})
}

/// Breadth-first exploration of the *implementation's* evaluator states (hook triple) over
/// the alphabet, to closure; every transition is logged as a trace (new + shortest history +
/// query) for validation.  Returns (states, transitions).
pub fn explore_evaluator(ends: &[f64], with_nan: bool, sink: &mut Sink, max_states: usize) -> (usize, usize, bool) {
    let pw = probe_pw(ends);
    let alpha = alphabet(ends, with_nan);
    let mut seen: HashMap<(usize, usize, u64), Vec<usize>> = HashMap::new();
    let mut queue: VecDeque<(usize, usize, u64)> = VecDeque::new();
    let s0 = PiecewiseEvaluator::new(&pw.segments).verif_state();
    seen.insert(s0, vec![]);
    queue.push_back(s0);
    let mut transitions = 0usize;
    let mut closed = true;
    while let Some(s) = queue.pop_front() {
        let path = seen[&s].clone();
        for (ai, &x) in alpha.iter().enumerate() {
            // re-create s by its shortest history, then take the transition, logging the whole run
            sink.ev(json!({"ev":"new","ends":jbs(ends)}));
            let mut ev = PiecewiseEvaluator::new(&pw.segments);
            for &pi in &path {
                let px = alpha[pi];
                let o = ev_query(&mut ev, px);
                let (did, _, _, dpan) = observe_direct(&pw, px);
                sink.ev(ev_event(px, &o, did, &dpan));
            }
            if ev.verif_state() != s {
                // the same history did not lead to the same hidden state (something outside the evaluator is
                // remembered between evaluators): no harness matter -- every event is judged on its own by the trace
                // specification -- but the state graph is not a function of the history, so no closure is claimed
                closed = false;
            }
            let o = ev_query(&mut ev, x);
            let (did, _, _, dpan) = observe_direct(&pw, x);
            sink.ev(ev_event(x, &o, did, &dpan));
            transitions += 1;
            let t = o.state;
            if !seen.contains_key(&t) {
                if seen.len() >= max_states {
                    closed = false;
                    continue;
                }
                let mut p = path.clone();
                p.push(ai);
                seen.insert(t, p);
                queue.push_back(t);
            }
        }
    }
    (seen.len(), transitions, closed)
}

/// Random well-formed ends: duplicates, runs of consecutive floats, infinities at the extremes.
pub fn random_ends(rng: &mut Rng, n: usize) -> Vec<f64> {
    let mode = rng.below(6);
    let mut v: Vec<f64> = Vec::with_capacity(n);
    match mode {
        0 => {
            for _ in 0..n {
                v.push(rng.float_exp(-20, 20));
            }
        }
        1 => {
            // consecutive floats from a random start, with repeats
            let mut x = rng.float_exp(-5, 5);
            for _ in 0..n {
                v.push(x);
                if rng.below(3) != 0 {
                    x = x.next_up();
                }
            }
        }
        2 => {
            for _ in 0..n {
                v.push(rng.range(-4, 4) as f64);
            }
        }
        3 => {
            // around zero, subnormals, both zeros
            for _ in 0..n {
                let k = rng.range(-3, 3);
                v.push(if k == 0 { if rng.bool() { 0.0 } else { -0.0 } } else { k as f64 * f64::from_bits(1) });
            }
        }
        4 => {
            for _ in 0..n {
                v.push(rng.float_exp(-1022, 1023));
            }
        }
        _ => {
            for _ in 0..n {
                v.push(rng.nice());
            }
        }
    }
    v.sort_by(|a, b| a.partial_cmp(b).unwrap());
    if rng.below(4) == 0 {
        v[0] = f64::NEG_INFINITY;
    }
    if rng.below(4) == 0 {
        let l = v.len() - 1;
        v[l] = f64::INFINITY;
    }
    v
}

/// Random evaluator sessions (random walks over the alphabet plus arbitrary floats).
pub fn drive_evaluator(seed: u64, sessions: usize, with_nan: bool, sink: &mut Sink) {
    let mut rng = Rng::new(seed);
    let mut kept: Option<(Piecewise<Probe>, Vec<f64>)> = None;
    for _ in 0..sessions {
        // a fresh object, or (one session in three) the previous object edited IN PLACE with the previous session's
        // queries asked again of a new evaluator: nothing may survive from the evaluator that is gone
        let (pw, replay) = match kept.take() {
            Some((mut p, q)) if rng.below(2) == 0 => {
                // mostly edits that keep the length (whatever is remembered per buffer and length stays addressable)
                let n0 = p.segments.len();
                for _ in 0..4 {
                    let mut t = p.clone();
                    edit_in_place(&mut rng, &mut t, false);
                    if t.segments.len() == n0 || rng.below(4) == 0 {
                        // apply the accepted edit to the ORIGINAL buffer (same address)
                        p.segments.truncate(t.segments.len());
                        for (s, u) in p.segments.iter_mut().zip(t.segments.iter()) {
                            s.end = u.end;
                        }
                        break;
                    }
                }
                (p, if rng.below(3) != 0 { q } else { vec![] })
            }
            _ => {
                let n = if rng.below(20) == 0 { rng.long_len() } else { 1 + rng.size(4, 40, 8) as usize };
                (probe_pw(&random_ends(&mut rng, n)), vec![])
            }
        };
        let ends: Vec<f64> = pw.segments.iter().map(|s| s.end).collect();
        let alpha = alphabet(&ends, with_nan);
        sink.ev(json!({"ev":"new","ends":jbs(&ends)}));
        let mut ev = PiecewiseEvaluator::new(&pw.segments);
        let len = if replay.is_empty() { 1 + rng.below(60) as usize } else { replay.len() };
        let style = rng.below(4);
        let mut idx = rng.below(alpha.len() as u64) as i64;
        let mut asked = vec![];
        for qi in 0..len {
            let x = if !replay.is_empty() { replay[qi] } else { match style {
                0 => *rng.pick(&alpha),
                1 => {
                    // ping-pong / local moves through the alphabet sorted by value
                    idx = (idx + rng.range(-3, 3)).rem_euclid(alpha.len() as i64);
                    alpha[idx as usize]
                }
                2 => {
                    if rng.below(5) == 0 {
                        rng.float_exp(-30, 30)
                    } else {
                        *rng.pick(&alpha)
                    }
                }
                _ => {
                    // mostly backward moves
                    let a = *rng.pick(&alpha);
                    let b = *rng.pick(&alpha);
                    if rng.below(4) != 0 { a.min(b) } else { a.max(b) }
                }
            } };
            let x = if x.is_nan() && !with_nan { 0.0 } else { x };
            asked.push(x);
            let o = ev_query(&mut ev, x);
            let (did, _, _, dpan) = observe_direct(&pw, x);
            sink.ev(ev_event(x, &o, did, &dpan));
        }
        drop(ev);
        kept = Some((pw, asked));
    }
}

/// Hook-free: all histories of length <= depth over the alphabet (no state is read).
pub fn bounded_histories(ends: &[f64], depth: usize, with_nan: bool, sink: &mut Sink) -> usize {
    let pw = probe_pw(ends);
    let alpha = alphabet(ends, with_nan);
    let mut count = 0;
    let mut idx = vec![0usize; depth];
    loop {
        sink.ev(json!({"ev":"new","ends":jbs(ends)}));
        let mut ev = PiecewiseEvaluator::new(&pw.segments);
        for &i in &idx {
            let x = alpha[i];
            let o = ev_query(&mut ev, x);
            let (did, _, _, dpan) = observe_direct(&pw, x);
            sink.ev(ev_event(x, &o, did, &dpan));
        }
        count += 1;
        // next tuple
        let mut k = depth;
        loop {
            if k == 0 {
                return count;
            }
            k -= 1;
            idx[k] += 1;
            if idx[k] < alpha.len() {
                break;
            }
            idx[k] = 0;
        }
    }
}

// ===================================================================== C12 evaluate_v

pub struct CountingIter {
    xs: Vec<f64>,
    pos: usize,
    pulls: std::rc::Rc<std::cell::Cell<usize>>,
}
impl Iterator for CountingIter {
    type Item = f64;
    fn next(&mut self) -> Option<f64> {
        self.pulls.set(self.pulls.get() + 1);
        let r = self.xs.get(self.pos).copied();
        self.pos += 1;
        r
    }
}

pub struct VObs {
    pub segs: Vec<u32>,
    pub args: Vec<u64>,
    pub vals_ok: bool,
    /// input items pulled when the i-th output was produced; last entry: after exhaustion
    pub pulls: Vec<usize>,
    pub pulled_before_first: usize,
    pub panic: Option<String>,
}

pub fn observe_evalv(pw: &Piecewise<Probe>, xs: &[f64]) -> VObs {
    let pulls = std::rc::Rc::new(std::cell::Cell::new(0usize));
    let mut o = VObs { segs: vec![], args: vec![], vals_ok: true, pulls: vec![], pulled_before_first: 0, panic: None };
    probe_take();
    let it = CountingIter { xs: xs.to_vec(), pos: 0, pulls: pulls.clone() };
    let r = guarded(|| {
        let mut out = pw.evaluate_v(it);
        let before = pulls.get();
        let mut segs = vec![];
        let mut args = vec![];
        let mut pl = vec![];
        let mut ok = true;
        loop {
            let y = out.next();
            let log = probe_take();
            pl.push(pulls.get());
            match y {
                None => break,
                Some(y) => {
                    if log.len() != 1 {
                        ok = false;
                        segs.push(0);
                        args.push(0);
                    } else {
                        segs.push(log[0].0);
                        args.push(log[0].1);
                        ok &= y.to_bits() == probe_value(log[0].0, f64::from_bits(log[0].1)).to_bits();
                    }
                }
            }
        }
        (before, segs, args, pl, ok)
    });
    match r {
        Ok((before, segs, args, pl, ok)) => {
            o.pulled_before_first = before;
            o.segs = segs;
            o.args = args;
            o.pulls = pl;
            o.vals_ok = ok;
        }
        Err(m) => o.panic = Some(m),
    }
    o
}

/// lines: {ends, hist, x, prev}: one edge of the evaluate_v cursor graph; the whole history
/// plus x is fed as one batch.
pub fn replay_evalv(lines: &[Value], seed: u64) -> ReplayReport {
    let mut rep = ReplayReport::default();
    let (lo, hi) = rank_bounds(lines, &["ends", "hist", "x"]);
    let embs = embeddings(lo, hi, seed);
    let mut distinct: std::collections::HashSet<(Vec<i64>, Vec<i64>, i64)> = Default::default();
    for l in lines {
        rep.cases += 1;
        let ends = ranks(&l["ends"]);
        let hist = ranks(&l["hist"]);
        let xr = l["x"].as_i64().unwrap();
        let sels = ranks(&l["sels"]); // model's piece for every element of hist ++ <<x>>
        if sels.last() != Some(&(ends.len() as i64)) || sels.len() > 1 {
            distinct.insert((ends.clone(), hist.clone(), xr));
        }
        for e in &embs {
            rep.runs += 1;
            let fe: Vec<f64> = ends.iter().map(|&r| e.at(r)).collect();
            let pw = probe_pw(&fe);
            let mut xs: Vec<f64> = hist.iter().map(|&r| e.arg(r)).collect();
            xs.push(e.arg(xr));
            let o = observe_evalv(&pw, &xs);
            let want: Vec<u32> = sels.iter().map(|&s| s as u32).collect();
            let args_ok = o.args.iter().zip(xs.iter()).all(|(&a, &x)| a == x.to_bits());
            let lazy_ok = o.pulled_before_first == 0
                && o.pulls.len() == xs.len() + 1
                && o.pulls.iter().enumerate().all(|(i, &p)| p == i + 1);
            let ok = o.panic.is_none() && o.segs == want && args_ok && o.vals_ok && lazy_ok;
            if !ok {
                rep.viol(json!({"kind":"evaluate_v","embedding":e.name,"ends_rank":ends,"xs_rank":(hist.iter().copied().chain(std::iter::once(xr)).collect::<Vec<i64>>()),
                    "ends":fe.iter().map(|&v| hex(v)).collect::<Vec<_>>(),"xs":xs.iter().map(|&v| hex(v)).collect::<Vec<_>>(),
                    "expected_pieces":want,"observed_pieces":o.segs,"args_ok":args_ok,"lazy_ok":lazy_ok,
                    "pulls":o.pulls,"pulled_before_first":o.pulled_before_first,"panic":o.panic}));
            }
        }
        if rep.samples.len() < 3 && hist.len() >= 2 {
            rep.samples.push(l.clone());
        }
    }
    rep.nontrivial = distinct.len();
    rep
}

pub fn drive_evalv(seed: u64, batches: usize, with_nan: bool, sink: &mut Sink) {
    let mut rng = Rng::new(seed);
    let mut kept: Option<(Piecewise<Probe>, Vec<f64>)> = None;
    for _ in 0..batches {
        // a fresh object and batch, or (one batch in three) the previous object edited IN PLACE, fed the previous batch
        // again or a new one: a batch starts from nothing, whatever the batch before it left behind
        let (pw, old_xs) = match kept.take() {
            Some((mut p, q)) if rng.below(3) == 0 => {
                edit_in_place(&mut rng, &mut p, false);
                (p, if rng.bool() { q } else { vec![] })
            }
            _ => {
                let n = if rng.below(20) == 0 { rng.long_len() } else { 1 + rng.size(4, 40, 8) as usize };
                (probe_pw(&random_ends(&mut rng, n)), vec![])
            }
        };
        let ends: Vec<f64> = pw.segments.iter().map(|s| s.end).collect();
        let alpha = alphabet(&ends, false);
        let xs: Vec<f64> = if !old_xs.is_empty() {
            old_xs
        } else {
            let len = rng.size(8, 300, 30) as usize;
            let mut xs: Vec<f64> = (0..len)
                .map(|_| if rng.below(5) == 0 { rng.float_exp(-30, 30) } else { *rng.pick(&alpha) })
                .collect();
            let sorted = rng.below(3) != 0;
            if sorted {
                xs.sort_by(|a, b| a.partial_cmp(b).unwrap());
            }
            if with_nan && !xs.is_empty() && rng.below(4) == 0 {
                let i = rng.below(xs.len() as u64) as usize;
                xs[i] = f64::NAN;
            }
            xs
        };
        let o = observe_evalv(&pw, &xs);
        let dsegs: Vec<u32> = xs.iter().map(|&x| observe_direct(&pw, x).0).collect();
        sink.ev(json!({"ev":"evalv","ends":jbs(&ends),"xs":jbs(&xs),"segs":o.segs,
            "args":o.args.iter().map(|&a| jbits(a)).collect::<Vec<_>>(),"valok":o.vals_ok,
            "pulls":o.pulls,"pre":o.pulled_before_first,"panic":o.panic.is_some(),"dsegs":dsegs}));
        kept = Some((pw, xs));
    }
}

// ===================================================================== C02 driver

/// History stratum (hidden state keyed on an object's address, length or outer breakpoints would survive this): edit a
/// piecewise function IN PLACE through its public fields, the way a caller may between two calls -- same buffer, same or
/// smaller length.  `swap` also exchanges two pieces (only where pieces are logged in full, not for numbered probes).
pub fn edit_in_place<T: Clone>(rng: &mut Rng, pw: &mut Piecewise<T>, swap: bool) {
    let n = pw.segments.len();
    if n == 0 {
        return;
    }
    let ends: Vec<f64> = pw.segments.iter().map(|s| s.end).collect();
    match rng.below(if swap { 7 } else { 6 }) {
        0 if n >= 3 => {
            // move ONE interior breakpoint; count, first and last breakpoint stay
            let i = 1 + rng.below(n as u64 - 2) as usize;
            let (lo, hi) = (ends[i - 1], ends[i + 1]);
            let e = match rng.below(4) {
                0 => lo,
                1 => hi,
                2 => lo / 2.0 + hi / 2.0,
                _ => lo.next_up().min(hi),
            };
            if !e.is_nan() {
                pw.segments[i].end = e.max(lo).min(hi); // halving subnormals rounds outside the bracket
            }
        }
        1 if n >= 3 => {
            // all interior breakpoints anew between the unchanged outer ones
            let (lo, hi) = (ends[0], ends[n - 1]);
            if lo.is_finite() && hi.is_finite() {
                let mut v: Vec<f64> = (0..n - 2).map(|_| lo / 2.0 + hi / 2.0 + (hi / 2.0 - lo / 2.0) * (2.0 * rng.unit() - 1.0)).map(|e| e.max(lo).min(hi)).collect();
                v.sort_by(|a, b| a.partial_cmp(b).unwrap());
                for (k, e) in v.into_iter().enumerate() {
                    pw.segments[k + 1].end = e;
                }
            }
        }
        2 => {
            // the whole axis moved (order kept): x10, /10, or shifted right past the old last breakpoint
            let f = *rng.pick(&[10.0, 0.1, 3.0]);
            for s in pw.segments.iter_mut() {
                s.end *= f;
            }
        }
        3 if n > 1 => {
            pw.segments.pop();
        }
        4 if n > 1 => {
            let k = 1 + rng.below(n as u64 - 1) as usize;
            pw.segments.truncate(k);
        }
        5 => {
            // same length, same buffer, unrelated breakpoints
            let v = random_ends(rng, n);
            for (s, e) in pw.segments.iter_mut().zip(v) {
                s.end = e;
            }
        }
        6 if n >= 2 => {
            let i = rng.below(n as u64) as usize;
            let j = rng.below(n as u64) as usize;
            let (a, b) = (pw.segments[i].poly.clone(), pw.segments[j].poly.clone());
            pw.segments[i].poly = b;
            pw.segments[j].poly = a;
        }
        _ => {
            // duplicate a breakpoint onto its neighbour
            if n >= 2 {
                let i = rng.below(n as u64 - 1) as usize;
                pw.segments[i].end = ends[i + 1];
            }
        }
    }
}

pub fn drive_select(seed: u64, lists: usize, sink: &mut Sink) {
    let mut rng = Rng::new(seed);
    for _ in 0..lists {
        let n = if rng.below(20) == 0 { rng.long_len() } else { 1 + rng.size(4, 40, 8) as usize };
        let ends = random_ends(&mut rng, n);
        let mut pw = probe_pw(&ends);
        let mut xs = alphabet(&ends, true);
        for _ in 0..4 {
            xs.push(rng.float_exp(-40, 40));
        }
        // the object as built, then (one list in three) the SAME object edited in place a few times, queried with the
        // old arguments and the new alphabet
        let edits = if rng.below(3) == 0 { 1 + rng.below(3) } else { 0 };
        for round in 0..=edits {
            if round > 0 {
                // the argument asked last before the edit is asked first after it (a remembered answer would be stale)
                let carry = *xs.last().unwrap();
                edit_in_place(&mut rng, &mut pw, false);
                let now: Vec<f64> = pw.segments.iter().map(|s| s.end).collect();
                xs.truncate(8);
                xs.insert(0, carry);
                xs.extend(alphabet(&now, true));
            }
            if edits > 0 {
                let now: Vec<f64> = pw.segments.iter().map(|s| s.end).collect();
                let a = alphabet(&now, false);
                xs.push(*rng.pick(&a));
            }
            let ends: Vec<f64> = pw.segments.iter().map(|s| s.end).collect();
            let mut segs = vec![];
            let mut args = vec![];
            let mut ok = true;
            let mut pan = false;
            for &x in &xs {
                let (id, xb, vok, p) = observe_direct(&pw, x);
                segs.push(id);
                args.push(jbits(xb));
                ok &= vok;
                pan |= p.is_some();
            }
            sink.ev(json!({"ev":"select","ends":jbs(&ends),"xs":jbs(&xs),"segs":segs,"args":args,"valok":ok,"panic":pan}));
        }
    }
}

// ===================================================================== C13 merge

fn lane_pw(ends: &[f64], side: u32) -> Piecewise<IntOfLogPoly4> {
    // every number of every piece identifies (side, index, field)
    Piecewise {
        segments: ends
            .iter()
            .enumerate()
            .map(|(i, &e)| {
                let b = if side == 0 { (i + 1) as f64 } else { 64.0 * (i + 1) as f64 };
                Segment {
                    end: e,
                    poly: IntOfLogPoly4 { k: b, coeffs: [b * 4096.0, b * 4096.0 * 4096.0, b / 4096.0, -b], u: b * 3.0 },
                }
            })
            .collect(),
    }
}

pub struct MergeObs {
    pub res: Vec<(f64, u32, u32, u8)>,
    pub lanes_ok: bool,
    pub panic: Option<String>,
}

/// &f + &g / &f - &g on provenance pieces and on the real IntOfLogPoly4 (lane-coded).
pub fn observe_merge(fe: &[f64], ge: &[f64], sub: bool) -> MergeObs {
    let f = tag_pw(fe);
    let g = tag_pw(ge);
    // the merge is a loop whose termination depends on its cursors: run it under a watchdog
    let r = guarded_timeout(250, move || if sub { &f - &g } else { &f + &g });
    if hung() {
        return MergeObs { res: vec![], lanes_ok: false, panic: r.err() };
    }
    let fl = lane_pw(fe, 0);
    let gl = lane_pw(ge, 1);
    let rl = guarded(|| if sub { &fl - &gl } else { &fl + &gl });
    match (r, rl) {
        (Ok(r), Ok(rl)) => {
            let res: Vec<(f64, u32, u32, u8)> = r.segments.iter().map(|s| (s.end, s.poly.a, s.poly.b, s.poly.op)).collect();
            let mut lanes_ok = rl.segments.len() == res.len();
            if lanes_ok {
                for (s, t) in rl.segments.iter().zip(res.iter()) {
                    let a = t.1 as f64;
                    let b = 64.0 * t.2 as f64;
                    let c = |x: f64, y: f64| if sub { x - y } else { x + y };
                    let want = IntOfLogPoly4 {
                        k: c(a, b),
                        coeffs: [c(a * 4096.0, b * 4096.0), c(a * 4096.0 * 4096.0, b * 4096.0 * 4096.0), c(a / 4096.0, b / 4096.0), c(-a, -b)],
                        u: c(a * 3.0, b * 3.0),
                    };
                    lanes_ok &= s.end.to_bits() == t.0.to_bits() && s.poly == want;
                }
            }
            MergeObs { res, lanes_ok, panic: None }
        }
        (Err(m), _) | (_, Err(m)) => MergeObs { res: vec![], lanes_ok: false, panic: Some(m) },
    }
}

/// History stratum for + and -: ONE pair of operand objects, merged, edited in place (one operand, then the other),
/// merged again -- all on one watchdog thread, so anything the code remembers between calls (per thread, per address,
/// per length, per outer breakpoint) is still there.  Returns (f ends, g ends, observation) per step.
pub fn observe_merge_chain(fe: &[f64], ge: &[f64], sub: bool, seed: u64, steps: usize) -> Vec<(Vec<f64>, Vec<f64>, MergeObs)> {
    let (fe, ge) = (fe.to_vec(), ge.to_vec());
    let (fe0, ge0) = (fe.clone(), ge.clone());
    let r = guarded_timeout(1000, move || {
        let mut rng = Rng::new(seed);
        let mut f = tag_pw(&fe);
        let mut g = tag_pw(&ge);
        let mut out = vec![];
        for step in 0..steps {
            if step > 0 {
                if step % 2 == 1 { edit_in_place(&mut rng, &mut f, false) } else { edit_in_place(&mut rng, &mut g, false) }
            }
            let fe: Vec<f64> = f.segments.iter().map(|s| s.end).collect();
            let ge: Vec<f64> = g.segments.iter().map(|s| s.end).collect();
            let r = guarded(|| if sub { &f - &g } else { &f + &g });
            let obs = match r {
                Ok(r) => MergeObs { res: r.segments.iter().map(|s| (s.end, s.poly.a, s.poly.b, s.poly.op)).collect(), lanes_ok: true, panic: None },
                Err(m) => MergeObs { res: vec![], lanes_ok: false, panic: Some(m) },
            };
            out.push((fe, ge, obs));
        }
        out
    });
    match r {
        Ok(v) => v,
        // the chain did not return (or panicked outside the guarded calls): a panic-class outcome for the pair as given
        Err(m) => vec![(fe0.clone(), ge0.clone(), MergeObs { res: vec![], lanes_ok: false, panic: None }),
                       (fe0, ge0, MergeObs { res: vec![], lanes_ok: false, panic: Some(m) })],
    }
}

/// lines: {f:[rank..], g:[rank..], res:[[end, i, j]..]} from MC_Merge.
pub fn replay_merge(lines: &[Value], seed: u64) -> ReplayReport {
    let mut rep = ReplayReport::default();
    let (lo, hi) = rank_bounds(lines, &["f", "g"]);
    let embs = embeddings(lo - 1, hi + 1, seed);
    let mut distinct: std::collections::HashSet<(Vec<i64>, Vec<i64>)> = Default::default();
    for l in lines {
        rep.cases += 1;
        let f = ranks(&l["f"]);
        let g = ranks(&l["g"]);
        let res: Vec<Vec<i64>> = l["res"].as_array().unwrap().iter().map(ranks).collect();
        if f.len() > 1 || g.len() > 1 {
            distinct.insert((f.clone(), g.clone()));
        }
        for e in &embs {
            let fe: Vec<f64> = f.iter().map(|&r| e.at(r)).collect();
            let ge: Vec<f64> = g.iter().map(|&r| e.at(r)).collect();
            for sub in [false, true] {
                rep.runs += 1;
                let o = observe_merge(&fe, &ge, sub);
                let op = if sub { 2 } else { 1 };
                // contract, decided here from the model's Select over ranks: at every rank x the
                // result piece selected must combine (Select f x, Select g x)
                let mut contract_ok = o.panic.is_none() && o.lanes_ok && !o.res.is_empty() && o.res.len() <= f.len() + g.len() - 1;
                if contract_ok {
                    let rends: Vec<f64> = o.res.iter().map(|t| t.0).collect();
                    contract_ok &= rends.windows(2).all(|w| w[0] <= w[1]);
                    contract_ok &= rends.iter().all(|r| fe.iter().chain(ge.iter()).any(|x| x.to_bits() == r.to_bits()));
                    for xr in (lo - 1)..=(hi + 1) {
                        let x = e.arg(xr);
                        let sf = f.iter().position(|&r| r > xr).map_or(f.len(), |p| p + 1) as u32;
                        let sg = g.iter().position(|&r| r > xr).map_or(g.len(), |p| p + 1) as u32;
                        let sr = ref_select(&rends, x);
                        let t = o.res[sr - 1];
                        contract_ok &= t.1 == sf && t.2 == sg && t.3 == op;
                    }
                }
                if hung() {
                    rep.viol(json!({"kind":"merge","op":if sub {"sub"} else {"add"},"embedding":e.name,"f_rank":f,"g_rank":g,
                        "f":fe.iter().map(|&v| hex(v)).collect::<Vec<_>>(),"g":ge.iter().map(|&v| hex(v)).collect::<Vec<_>>(),
                        "panic":o.panic,"note":"the merge did not return; replay stopped here"}));
                    rep.nontrivial = distinct.len();
                    return rep;
                }
                if !contract_ok {
                    rep.viol(json!({"kind":"merge","op":if sub {"sub"} else {"add"},"embedding":e.name,"f_rank":f,"g_rank":g,
                        "f":fe.iter().map(|&v| hex(v)).collect::<Vec<_>>(),"g":ge.iter().map(|&v| hex(v)).collect::<Vec<_>>(),
                        "observed":o.res.iter().map(|t| json!([hex(t.0), t.1, t.2, t.3])).collect::<Vec<_>>(),
                        "model":res,"lanes_ok":o.lanes_ok,"panic":o.panic}));
                } else {
                    let shape_ok = o.res.len() == res.len()
                        && o.res.iter().zip(res.iter()).all(|(t, m)| t.0.to_bits() == e.at(m[0]).to_bits() && t.1 as i64 == m[1] && t.2 as i64 == m[2]);
                    if !shape_ok {
                        rep.drf(json!({"kind":"merge-shape","op":if sub {"sub"} else {"add"},"embedding":e.name,"f_rank":f,"g_rank":g,"model":res,
                            "observed":o.res.iter().map(|t| json!([hex(t.0), t.1, t.2])).collect::<Vec<_>>()}));
                    }
                }
            }
        }
        if rep.samples.len() < 3 && f.len() > 1 && g.len() > 1 {
            rep.samples.push(l.clone());
        }
    }
    rep.nontrivial = distinct.len();
    rep
}

pub fn drive_merge(seed: u64, pairs: usize, sink: &mut Sink) {
    let mut rng = Rng::new(seed);
    for _ in 0..pairs {
        let nf = if rng.below(50) == 0 { rng.long_len() } else { 1 + rng.size(5, 30, 6) as usize };
        let ng = if rng.below(50) == 0 { rng.long_len() } else { 1 + rng.size(5, 30, 6) as usize };
        let fe = random_ends(&mut rng, nf);
        let ge = match rng.below(5) {
            0 => fe.clone(),                                             // identical
            1 => {
                // interleaved by ulps
                let mut v: Vec<f64> = fe.iter().map(|&x| if rng.bool() || !x.is_finite() { x } else { x.next_up() }).collect();
                v.sort_by(|a, b| a.partial_cmp(b).unwrap());
                v
            }
            2 => {
                // nested / shared breakpoints
                let mut v: Vec<f64> = (0..ng).map(|_| *rng.pick(&fe)).collect();
                v.sort_by(|a, b| a.partial_cmp(b).unwrap());
                v
            }
            _ => random_ends(&mut rng, ng),
        };
        if rng.below(4) == 0 {
            // a documented rejection (NaN breakpoint, or an empty operand) caught on this thread just before:
            // the next well-formed call must be unaffected by it
            let mut bad = ge.clone();
            let k = rng.below(bad.len() as u64) as usize;
            bad[k] = f64::NAN;
            let _ = observe_merge(&fe, &bad, rng.bool());
            let _ = observe_merge(&[], &ge, rng.bool());
        }
        for sub in [false, true] {
            let o = observe_merge(&fe, &ge, sub);
            let mut xs = alphabet(&fe, false);
            for x in alphabet(&ge, false) {
                if !xs.iter().any(|y| y.to_bits() == x.to_bits()) {
                    xs.push(x);
                }
            }
            sink.ev(json!({"ev":"merge","op":if sub {2} else {1},"f":jbs(&fe),"g":jbs(&ge),
                "res":o.res.iter().map(|t| json!([jb(t.0), t.1, t.2, t.3])).collect::<Vec<_>>(),
                "lanes":o.lanes_ok,"panic":o.panic.is_some(),"xs":jbs(&xs)}));
            if hung() {
                return; // the event above records the non-return as a panic-class outcome; nothing more can be run
            }
        }
        if rng.below(3) == 0 && fe.len() < 64 && ge.len() < 64 {
            // tag pieces are numbered, so a popped or truncated operand stays consistent with its numbering
            let sub = rng.bool();
            for (f2, g2, o) in observe_merge_chain(&fe, &ge, sub, rng.u64(), 4).into_iter().skip(1) {
                let mut xs = alphabet(&f2, false);
                for x in alphabet(&g2, false) {
                    if !xs.iter().any(|y| y.to_bits() == x.to_bits()) {
                        xs.push(x);
                    }
                }
                sink.ev(json!({"ev":"merge","op":if sub {2} else {1},"f":jbs(&f2),"g":jbs(&g2),
                    "res":o.res.iter().map(|t| json!([jb(t.0), t.1, t.2, t.3])).collect::<Vec<_>>(),
                    "lanes":o.lanes_ok,"panic":o.panic.is_some(),"xs":jbs(&xs)}));
            }
            if hung() {
                return;
            }
        }
    }
}

// ===================================================================== C19 Arbitrary

/// Encode a list of f64 as the byte string `Vec<f64>::arbitrary` decodes to it
/// (arbitrary 1.4: per element a continue-flag byte then 8 little-endian bytes; a zero flag
/// byte, or running out of data, ends the list), followed by `tail` bytes for the pieces.
pub fn encode_vec(xs: &[f64], terminator: bool, tail: &[u8]) -> Vec<u8> {
    let mut b = Vec::new();
    for &x in xs {
        b.push(1);
        b.extend_from_slice(&x.to_bits().to_le_bytes());
    }
    if terminator {
        b.push(0);
    }
    b.extend_from_slice(tail);
    b
}

fn arb_event(bytes: &[u8]) -> Value {
    // what the implementation's first step decodes, obtained independently from the same bytes
    let mut u0 = Unstructured::new(bytes);
    let decoded: Vec<f64> = Vec::<f64>::arbitrary(&mut u0).unwrap_or_default();
    let mut u = Unstructured::new(bytes);
    let r = guarded(|| Piecewise::<Poly1>::arbitrary(&mut u));
    let empty = || (false, Vec::<f64>::new(), Vec::<u32>::new(), Vec::<u32>::new(), Vec::<u32>::new(), false);
    let (outcome, ends, paths) = match &r {
        Err(_) => ("panic", vec![], empty()),
        Ok(Err(_)) => ("err", vec![], empty()),
        Ok(Ok(p)) => {
            let ends = ends_of(p);
            // evaluate through the three paths on probe pieces with the same ends
            let paths = if ends.is_empty() || ends.iter().any(|e| e.is_nan()) {
                empty()
            } else {
                let pw = probe_pw(&ends);
                let mut xs = alphabet(&ends, false);
                xs.sort_by(|a, b| a.partial_cmp(b).unwrap());
                let mut pan = false;
                let d: Vec<u32> = xs.iter().map(|&x| { let o = observe_direct(&pw, x); pan |= o.3.is_some(); o.0 }).collect();
                let mut ev = PiecewiseEvaluator::new(&pw.segments);
                let s: Vec<u32> = xs.iter().map(|&x| { let o = ev_query(&mut ev, x); pan |= o.panic.is_some(); o.seg }).collect();
                let v = observe_evalv(&pw, &xs);
                pan |= v.panic.is_some();
                let mut b = v.segs.clone();
                b.resize(xs.len(), 0);
                (true, xs, d, s, b, pan)
            };
            ("ok", ends, paths)
        }
    };
    let (hp, pxs, pd, ps, pb, pp) = paths;
    json!({"ev":"arb","nbytes":bytes.len(),"decoded":jbs(&decoded),"outcome":outcome,"ends":jbs(&ends),
           "hp":hp,"xs":jbs(&pxs),"direct":pd,"stateful":ps,"batch":pb,"ppanic":pp})
}

/// lines: {classes:[..]} abstract class lists from MC_Arb: n = NaN, p/m = +-inf, z = zero,
/// s = subnormal, integer = normal value of that rank.  Each is encoded with the tail bytes
/// present, truncated at every position and absent.
pub fn replay_arb(lines: &[Value], seed: u64, sink: &mut Sink) -> usize {
    let mut rng = Rng::new(seed);
    let mut n = 0;
    for l in lines {
        let xs: Vec<f64> = l["classes"]
            .as_array()
            .unwrap()
            .iter()
            .map(|c| match c.as_i64().unwrap() {
                -1 => f64::NAN,
                -2 => f64::INFINITY,
                -3 => f64::NEG_INFINITY,
                -4 => if rng.bool() { 0.0 } else { -0.0 },
                -5 => f64::from_bits(1 + rng.below(1 << 20)) * if rng.bool() { 1.0 } else { -1.0 },
                r => [-2.5e10, -1.0, f64::MIN_POSITIVE, 1.0, 3e200][r as usize % 5],
            })
            .collect();
        let tail: Vec<u8> = (0..xs.len() * 16).map(|_| rng.u64() as u8).collect();
        let full = encode_vec(&xs, true, &tail);
        sink.ev(arb_event(&full));
        n += 1;
        sink.ev(arb_event(&encode_vec(&xs, true, &[])));
        sink.ev(arb_event(&encode_vec(&xs, false, &[])));
        n += 2;
        // truncated at every position
        for cut in 0..full.len() {
            sink.ev(arb_event(&full[..cut]));
            n += 1;
        }
    }
    n
}

pub fn drive_arb(seed: u64, count: usize, sink: &mut Sink) {
    let mut rng = Rng::new(seed);
    for _ in 0..count {
        let bytes: Vec<u8> = match if rng.below(40) == 0 { 4 } else { rng.below(4) } {
            4 => {
                // long accepted lists (65..200 normal ends) with duplicates, in random order
                let n = 65 + rng.below(136) as usize;
                let pool: Vec<f64> = (0..n / 2 + 1).map(|_| rng.float_exp(-8, 8)).collect();
                let xs: Vec<f64> = (0..n).map(|_| *rng.pick(&pool)).collect();
                let tail: Vec<u8> = (0..rng.below(64)).map(|_| rng.u64() as u8).collect();
                encode_vec(&xs, true, &tail)
            }
            0 => (0..rng.below(400)).map(|_| rng.u64() as u8).collect(),
            1 => {
                // structured: mostly-normal floats, sometimes a special, random order
                let n = rng.below(12) as usize;
                let xs: Vec<f64> = (0..n)
                    .map(|_| match rng.below(12) {
                        0 => f64::NAN,
                        1 => f64::INFINITY,
                        2 => 0.0,
                        3 => f64::from_bits(rng.below(1 << 52)),
                        _ => rng.float_exp(-1022, 1023),
                    })
                    .collect();
                let tail: Vec<u8> = (0..rng.below(200)).map(|_| rng.u64() as u8).collect();
                encode_vec(&xs, rng.bool(), &tail)
            }
            2 => {
                // all normal: accepted path, descending / duplicates
                let n = 1 + rng.below(10) as usize;
                let mut xs: Vec<f64> = (0..n).map(|_| rng.float_exp(-10, 10)).collect();
                if rng.bool() {
                    xs.sort_by(|a, b| b.partial_cmp(a).unwrap());
                }
                if rng.bool() && n > 1 {
                    xs[1] = xs[0];
                }
                let tail: Vec<u8> = (0..rng.below(40)).map(|_| rng.u64() as u8).collect();
                encode_vec(&xs, true, &tail)
            }
            _ => {
                // mutate a structured one
                let xs: Vec<f64> = (0..3).map(|_| rng.float_exp(-3, 3)).collect();
                let mut b = encode_vec(&xs, true, &[7; 24]);
                for _ in 0..rng.below(4) {
                    let i = rng.below(b.len() as u64) as usize;
                    b[i] = rng.u64() as u8;
                }
                b.truncate(rng.below(b.len() as u64 + 1) as usize);
                b
            }
        };
        sink.ev(arb_event(&bytes));
    }
}
