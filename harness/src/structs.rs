//! A uniform view of the library's function forms: flatten to numbers / rebuild from numbers,
//! so drivers and replays can be written once and instantiated for every type.

use piecewise_polynomial::*;

pub trait Form: Sized + Clone + std::fmt::Debug + PartialEq {
    /// e.g. "Poly3", "Log<Poly2>", "IntOfLog<Poly5>", "IntOfLogPoly4"
    fn name() -> String;
    /// how many numbers (None: dynamic)
    fn arity() -> Option<usize>;
    fn from_flat(v: &[f64]) -> Self;
    fn flat(&self) -> Vec<f64>;
}

fn arr<const N: usize>(v: &[f64]) -> [f64; N] {
    let mut a = [0.0; N];
    a.copy_from_slice(&v[..N]);
    a
}

impl Form for Poly0 {
    fn name() -> String {
        "Poly0".into()
    }
    fn arity() -> Option<usize> {
        Some(1)
    }
    fn from_flat(v: &[f64]) -> Self {
        Poly0(v[0])
    }
    fn flat(&self) -> Vec<f64> {
        vec![self.0]
    }
}

macro_rules! form_poly {
    ($t:ident, $n:expr) => {
        impl Form for $t {
            fn name() -> String {
                stringify!($t).into()
            }
            fn arity() -> Option<usize> {
                Some($n)
            }
            fn from_flat(v: &[f64]) -> Self {
                $t(arr::<$n>(v))
            }
            fn flat(&self) -> Vec<f64> {
                self.0.to_vec()
            }
        }
    };
}
form_poly!(Poly1, 2);
form_poly!(Poly2, 3);
form_poly!(Poly3, 4);
form_poly!(Poly4, 5);
form_poly!(Poly5, 6);
form_poly!(Poly6, 7);
form_poly!(Poly7, 8);
form_poly!(Poly8, 9);

impl Form for PolyN {
    fn name() -> String {
        "PolyN".into()
    }
    fn arity() -> Option<usize> {
        None
    }
    fn from_flat(v: &[f64]) -> Self {
        PolyN(v.to_vec())
    }
    fn flat(&self) -> Vec<f64> {
        self.0.clone()
    }
}

impl<T: Form + Copy> Form for Log<T> {
    fn name() -> String {
        format!("Log<{}>", T::name())
    }
    fn arity() -> Option<usize> {
        T::arity()
    }
    fn from_flat(v: &[f64]) -> Self {
        Log(T::from_flat(v))
    }
    fn flat(&self) -> Vec<f64> {
        self.0.flat()
    }
}

/// flat = [k, poly...]
impl<T: Form + Copy> Form for IntOfLog<T> {
    fn name() -> String {
        format!("IntOfLog<{}>", T::name())
    }
    fn arity() -> Option<usize> {
        T::arity().map(|n| n + 1)
    }
    fn from_flat(v: &[f64]) -> Self {
        IntOfLog { k: v[0], poly: T::from_flat(&v[1..]) }
    }
    fn flat(&self) -> Vec<f64> {
        let mut r = vec![self.k];
        r.extend(self.poly.flat());
        r
    }
}

/// flat = [k, c1, c2, c3, c4, u]
impl Form for IntOfLogPoly4 {
    fn name() -> String {
        "IntOfLogPoly4".into()
    }
    fn arity() -> Option<usize> {
        Some(6)
    }
    fn from_flat(v: &[f64]) -> Self {
        IntOfLogPoly4 { k: v[0], coeffs: arr::<4>(&v[1..5]), u: v[5] }
    }
    fn flat(&self) -> Vec<f64> {
        vec![self.k, self.coeffs[0], self.coeffs[1], self.coeffs[2], self.coeffs[3], self.u]
    }
}

/// flat = [end, poly...]
impl<T: Form + Copy> Form for Segment<T> {
    fn name() -> String {
        format!("Segment<{}>", T::name())
    }
    fn arity() -> Option<usize> {
        T::arity().map(|n| n + 1)
    }
    fn from_flat(v: &[f64]) -> Self {
        Segment { end: v[0], poly: T::from_flat(&v[1..]) }
    }
    fn flat(&self) -> Vec<f64> {
        let mut r = vec![self.end];
        r.extend(self.poly.flat());
        r
    }
}

/// Piecewise over a fixed-arity piece type: flat = concatenation of segments
pub fn pw_from_flat<T: Form + Copy>(v: &[f64]) -> Piecewise<T> {
    let a = T::arity().expect("fixed arity") + 1;
    Piecewise { segments: v.chunks(a).map(Segment::<T>::from_flat).collect() }
}
pub fn pw_flat<T: Form + Copy>(p: &Piecewise<T>) -> Vec<f64> {
    p.segments.iter().flat_map(|s| s.flat()).collect()
}

/// Evaluate a fixed-degree polynomial given by its coefficient slice (len 1..=9) through the
/// library's PolyK type of that degree.
pub fn poly_eval(c: &[f64], x: f64) -> f64 {
    match c.len() {
        1 => Poly0::from_flat(c).evaluate(x),
        2 => Poly1::from_flat(c).evaluate(x),
        3 => Poly2::from_flat(c).evaluate(x),
        4 => Poly3::from_flat(c).evaluate(x),
        5 => Poly4::from_flat(c).evaluate(x),
        6 => Poly5::from_flat(c).evaluate(x),
        7 => Poly6::from_flat(c).evaluate(x),
        8 => Poly7::from_flat(c).evaluate(x),
        9 => Poly8::from_flat(c).evaluate(x),
        n => panic!("no fixed polynomial type with {n} coefficients"),
    }
}
pub fn log_poly_eval(c: &[f64], v: f64) -> f64 {
    match c.len() {
        1 => Log(Poly0::from_flat(c)).evaluate(v),
        2 => Log(Poly1::from_flat(c)).evaluate(v),
        3 => Log(Poly2::from_flat(c)).evaluate(v),
        4 => Log(Poly3::from_flat(c)).evaluate(v),
        5 => Log(Poly4::from_flat(c)).evaluate(v),
        6 => Log(Poly5::from_flat(c)).evaluate(v),
        7 => Log(Poly6::from_flat(c)).evaluate(v),
        8 => Log(Poly7::from_flat(c)).evaluate(v),
        9 => Log(Poly8::from_flat(c)).evaluate(v),
        n => panic!("no fixed polynomial type with {n} coefficients"),
    }
}

/// Run `$body` with `$T` bound to the fixed polynomial type with `$len` coefficients.
#[macro_export]
macro_rules! with_poly_type {
    ($len:expr, $T:ident, $body:block) => {
        match $len {
            1 => { type $T = piecewise_polynomial::Poly0; $body }
            2 => { type $T = piecewise_polynomial::Poly1; $body }
            3 => { type $T = piecewise_polynomial::Poly2; $body }
            4 => { type $T = piecewise_polynomial::Poly3; $body }
            5 => { type $T = piecewise_polynomial::Poly4; $body }
            6 => { type $T = piecewise_polynomial::Poly5; $body }
            7 => { type $T = piecewise_polynomial::Poly6; $body }
            8 => { type $T = piecewise_polynomial::Poly7; $body }
            9 => { type $T = piecewise_polynomial::Poly8; $body }
            n => panic!("no fixed polynomial type with {} coefficients", n),
        }
    };
}
/// Same for the integrable ones (Poly0..Poly7).
#[macro_export]
macro_rules! with_int_poly_type {
    ($len:expr, $T:ident, $body:block) => {
        match $len {
            1 => { type $T = piecewise_polynomial::Poly0; $body }
            2 => { type $T = piecewise_polynomial::Poly1; $body }
            3 => { type $T = piecewise_polynomial::Poly2; $body }
            4 => { type $T = piecewise_polynomial::Poly3; $body }
            5 => { type $T = piecewise_polynomial::Poly4; $body }
            6 => { type $T = piecewise_polynomial::Poly5; $body }
            7 => { type $T = piecewise_polynomial::Poly6; $body }
            8 => { type $T = piecewise_polynomial::Poly7; $body }
            n => panic!("no integrable polynomial type with {} coefficients", n),
        }
    };
}
