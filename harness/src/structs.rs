//! Structural properties (filled in below).
