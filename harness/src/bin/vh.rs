//! vh <command> ... : see usage().
use serde_json::{json, Value};
use std::io::BufRead;
use vh::common::*;
use vh::order::*;

fn usage() -> ! {
    eprintln!("usage: vh replay <select|evaluator|evalv|merge> <lines.ndjson> <report.json> [seed]\n       vh replay-arb <lines.ndjson> <trace.ndjson> [seed]\n       vh drive <driver> <seed> <n> <trace.ndjson> [opts]\n       vh explore <seed> <lists> <maxn> <trace.ndjson> <report.json>");
    std::process::exit(2)
}

fn read_lines(path: &str) -> Vec<Value> {
    let f = std::fs::File::open(path).expect("open input");
    std::io::BufReader::new(f)
        .lines()
        .map(|l| l.unwrap())
        .filter(|l| !l.trim().is_empty())
        .map(|l| serde_json::from_str(&l).expect("bad json line"))
        .collect()
}

fn main() {
    quiet_panics();
    let a: Vec<String> = std::env::args().collect();
    if a.len() < 2 {
        usage();
    }
    let seed_at = |i: usize| a.get(i).map(|s| s.parse::<u64>().expect("seed")).unwrap_or(0);
    match a[1].as_str() {
        "replay" => {
            if a.len() < 5 {
                usage();
            }
            let lines = read_lines(&a[3]);
            let seed = seed_at(5);
            let rep = match a[2].as_str() {
                "select" => replay_select(&lines, seed),
                "evaluator" => replay_evaluator(&lines, seed),
                "evalv" => replay_evalv(&lines, seed),
                "merge" => replay_merge(&lines, seed),
                k => vh::dispatch::replay(k, &lines, seed),
            };
            std::fs::write(&a[4], serde_json::to_string_pretty(&rep.to_json()).unwrap()).unwrap();
            if hung() {
                std::process::exit(0);
            }
        }
        "replay-arb" => {
            let lines = read_lines(&a[2]);
            let mut sink = Sink::create(&a[3]);
            let n = replay_arb(&lines, seed_at(4), &mut sink);
            sink.finish();
            println!("{}", json!({"events": n}));
        }
        "replay-events" => {
            // TLC-enumerated cases run through the real code and logged as events for the trace spec
            let lines = read_lines(&a[3]);
            let mut sink = Sink::create(&a[4]);
            let n = vh::arith::replay_events(&a[2], &lines, &mut sink);
            sink.finish();
            println!("{}", json!({"events": n}));
        }
        "drive" => {
            if a.len() < 6 {
                usage();
            }
            let seed: u64 = a[3].parse().expect("seed");
            let n: usize = a[4].parse().expect("n");
            let mut sink = Sink::create(&a[5]);
            let extra = a.get(6).map(|s| s.as_str()).unwrap_or("");
            let mut nontrivial = None;
            match a[2].as_str() {
                "select" => drive_select(seed, n, &mut sink),
                "evaluator" => drive_evaluator(seed, n, extra != "nonan", &mut sink),
                "evalv" => drive_evalv(seed, n, extra != "nonan", &mut sink),
                "merge" => drive_merge(seed, n, &mut sink),
                "arb" => drive_arb(seed, n, &mut sink),
                k => nontrivial = Some(vh::dispatch::drive(k, seed, n, extra, &mut sink)),
            }
            let n = sink.finish();
            match nontrivial {
                Some(k) => println!("{}", json!({"events": n, "nontrivial": k})),
                None => println!("{}", json!({"events": n})),
            }
            if hung() {
                std::process::exit(0);
            }
        }
        "explore" => {
            // fixpoint exploration of implementation evaluator states for TLC-enumerated or random ends
            let seed: u64 = a[2].parse().unwrap();
            let lists: usize = a[3].parse().unwrap();
            let maxn: usize = a[4].parse().unwrap();
            let mut sink = Sink::create(&a[5]);
            let with_nan = a.get(7).map(|s| s == "nan").unwrap_or(false);
            let mut rng = Rng::new(seed);
            let (mut st, mut tr, mut closed_all) = (0usize, 0usize, true);
            let mut samples = vec![];
            // deterministic small lists first (all order types of <= maxn ends incl. duplicates), under two embeddings
            let mut all: Vec<Vec<f64>> = vec![];
            for n in 1..=maxn {
                let mut idx = vec![0usize; n];
                loop {
                    if idx.windows(2).all(|w| w[0] <= w[1]) {
                        all.push(idx.iter().map(|&i| i as f64).collect());
                        all.push(idx.iter().map(|&i| { let mut x = 1.0f64; for _ in 0..i { x = x.next_up(); } x }).collect());
                    }
                    let mut k = n;
                    loop {
                        if k == 0 { break; }
                        k -= 1;
                        idx[k] += 1;
                        if idx[k] < maxn { break; }
                        idx[k] = 0;
                        if k == 0 { k = usize::MAX; break; }
                    }
                    if k == usize::MAX { break; }
                }
            }
            for _ in 0..lists {
                let n = 1 + rng.below(maxn as u64 + 2) as usize;
                all.push(random_ends(&mut rng, n));
            }
            for ends in &all {
                let (s, t, c) = explore_evaluator(ends, with_nan, &mut sink, 4000);
                st += s;
                tr += t;
                closed_all &= c;
                if samples.len() < 3 && ends.len() >= 3 {
                    samples.push(json!({"ends": ends.iter().map(|&e| hex(e)).collect::<Vec<_>>(), "impl_states": s, "transitions": t, "closed": c}));
                }
            }
            let ev = sink.finish();
            std::fs::write(&a[6], serde_json::to_string(&json!({"lists": all.len(), "impl_states": st, "transitions": tr, "closed": closed_all, "events": ev, "samples": samples})).unwrap()).unwrap();
        }
        "histories" => {
            // hook-free: all histories of length <= depth over the alphabet for small lists
            let depth: usize = a[2].parse().unwrap();
            let maxn: usize = a[3].parse().unwrap();
            let mut sink = Sink::create(&a[4]);
            let with_nan = a.get(5).map(|s| s == "nan").unwrap_or(false);
            let mut count = 0;
            for n in 1..=maxn {
                for dup in [false, true] {
                    let ends: Vec<f64> = (0..n).map(|i| if dup && i > 0 { (i - 1).max(1) as f64 } else { i as f64 }).collect();
                    let mut e = ends.clone();
                    e.sort_by(|a, b| a.partial_cmp(b).unwrap());
                    count += bounded_histories(&e, depth, with_nan, &mut sink);
                }
            }
            let ev = sink.finish();
            println!("{}", json!({"histories": count, "events": ev}));
        }
        _ => usage(),
    }
}
