fn main() { vh::hello(); }
