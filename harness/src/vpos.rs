//! A minimal positional, non-self-describing binary serde format (in the style of bincode): values are written in
//! declaration order with no field names and no type tags; sequences carry a length prefix, tuples / arrays / structs
//! do not.  It exists because serde_json and serde_cbor are both self-describing: attributes such as
//! `skip_serializing_if`, `default` or `flatten` that silently change the shape of the stream only break formats like
//! this one, and C18 speaks of serde, not of two particular formats.  Only what the library's types need is
//! implemented; everything else is an error (never a panic).

use serde::de::{self, DeserializeSeed, SeqAccess, Visitor};
use serde::ser::{self, Serialize};
use std::fmt;

#[derive(Debug)]
pub struct Error(pub String);
impl fmt::Display for Error {
    fn fmt(&self, f: &mut fmt::Formatter) -> fmt::Result {
        write!(f, "vpos: {}", self.0)
    }
}
impl std::error::Error for Error {}
impl ser::Error for Error {
    fn custom<T: fmt::Display>(msg: T) -> Self {
        Error(msg.to_string())
    }
}
impl de::Error for Error {
    fn custom<T: fmt::Display>(msg: T) -> Self {
        Error(msg.to_string())
    }
}

pub fn to_bytes<T: Serialize>(v: &T) -> Result<Vec<u8>, Error> {
    let mut s = Ser { out: Vec::new() };
    v.serialize(&mut s)?;
    Ok(s.out)
}

pub fn from_bytes<'a, T: de::Deserialize<'a>>(b: &'a [u8]) -> Result<T, Error> {
    let mut d = De { inp: b };
    let v = T::deserialize(&mut d)?;
    if d.inp.is_empty() {
        Ok(v)
    } else {
        Err(Error(format!("{} trailing bytes", d.inp.len())))
    }
}

pub struct Ser {
    out: Vec<u8>,
}

macro_rules! ser_num {
    ($f:ident, $t:ty) => {
        fn $f(self, v: $t) -> Result<(), Error> {
            self.out.extend_from_slice(&v.to_le_bytes());
            Ok(())
        }
    };
}

impl<'a> ser::Serializer for &'a mut Ser {
    type Ok = ();
    type Error = Error;
    type SerializeSeq = Self;
    type SerializeTuple = Self;
    type SerializeTupleStruct = Self;
    type SerializeTupleVariant = Self;
    type SerializeMap = Self;
    type SerializeStruct = Self;
    type SerializeStructVariant = Self;

    fn serialize_bool(self, v: bool) -> Result<(), Error> {
        self.out.push(v as u8);
        Ok(())
    }
    ser_num!(serialize_i8, i8);
    ser_num!(serialize_i16, i16);
    ser_num!(serialize_i32, i32);
    ser_num!(serialize_i64, i64);
    ser_num!(serialize_u8, u8);
    ser_num!(serialize_u16, u16);
    ser_num!(serialize_u32, u32);
    ser_num!(serialize_u64, u64);
    ser_num!(serialize_f32, f32);
    ser_num!(serialize_f64, f64);
    fn serialize_char(self, v: char) -> Result<(), Error> {
        self.serialize_u32(v as u32)
    }
    fn serialize_str(self, v: &str) -> Result<(), Error> {
        self.serialize_bytes(v.as_bytes())
    }
    fn serialize_bytes(self, v: &[u8]) -> Result<(), Error> {
        self.out.extend_from_slice(&(v.len() as u64).to_le_bytes());
        self.out.extend_from_slice(v);
        Ok(())
    }
    fn serialize_none(self) -> Result<(), Error> {
        self.out.push(0);
        Ok(())
    }
    fn serialize_some<T: ?Sized + Serialize>(self, v: &T) -> Result<(), Error> {
        self.out.push(1);
        v.serialize(self)
    }
    fn serialize_unit(self) -> Result<(), Error> {
        Ok(())
    }
    fn serialize_unit_struct(self, _: &'static str) -> Result<(), Error> {
        Ok(())
    }
    fn serialize_unit_variant(self, _: &'static str, i: u32, _: &'static str) -> Result<(), Error> {
        self.serialize_u32(i)
    }
    fn serialize_newtype_struct<T: ?Sized + Serialize>(self, _: &'static str, v: &T) -> Result<(), Error> {
        v.serialize(self)
    }
    fn serialize_newtype_variant<T: ?Sized + Serialize>(self, _: &'static str, i: u32, _: &'static str, v: &T) -> Result<(), Error> {
        self.out.extend_from_slice(&i.to_le_bytes());
        v.serialize(self)
    }
    fn serialize_seq(self, len: Option<usize>) -> Result<Self, Error> {
        let n = len.ok_or_else(|| Error("sequence of unknown length".into()))?;
        self.out.extend_from_slice(&(n as u64).to_le_bytes());
        Ok(self)
    }
    fn serialize_tuple(self, _: usize) -> Result<Self, Error> {
        Ok(self)
    }
    fn serialize_tuple_struct(self, _: &'static str, _: usize) -> Result<Self, Error> {
        Ok(self)
    }
    fn serialize_tuple_variant(self, _: &'static str, i: u32, _: &'static str, _: usize) -> Result<Self, Error> {
        self.out.extend_from_slice(&i.to_le_bytes());
        Ok(self)
    }
    fn serialize_map(self, len: Option<usize>) -> Result<Self, Error> {
        let n = len.ok_or_else(|| Error("map of unknown length".into()))?;
        self.out.extend_from_slice(&(n as u64).to_le_bytes());
        Ok(self)
    }
    fn serialize_struct(self, _: &'static str, _: usize) -> Result<Self, Error> {
        Ok(self)
    }
    fn serialize_struct_variant(self, _: &'static str, i: u32, _: &'static str, _: usize) -> Result<Self, Error> {
        self.out.extend_from_slice(&i.to_le_bytes());
        Ok(self)
    }
    fn is_human_readable(&self) -> bool {
        false
    }
}

macro_rules! ser_compound {
    ($tr:path, $m:ident) => {
        impl<'a> $tr for &'a mut Ser {
            type Ok = ();
            type Error = Error;
            fn $m<T: ?Sized + Serialize>(&mut self, v: &T) -> Result<(), Error> {
                v.serialize(&mut **self)
            }
            fn end(self) -> Result<(), Error> {
                Ok(())
            }
        }
    };
}
ser_compound!(ser::SerializeSeq, serialize_element);
ser_compound!(ser::SerializeTuple, serialize_element);
ser_compound!(ser::SerializeTupleStruct, serialize_field);
ser_compound!(ser::SerializeTupleVariant, serialize_field);
impl<'a> ser::SerializeMap for &'a mut Ser {
    type Ok = ();
    type Error = Error;
    fn serialize_key<T: ?Sized + Serialize>(&mut self, k: &T) -> Result<(), Error> {
        k.serialize(&mut **self)
    }
    fn serialize_value<T: ?Sized + Serialize>(&mut self, v: &T) -> Result<(), Error> {
        v.serialize(&mut **self)
    }
    fn end(self) -> Result<(), Error> {
        Ok(())
    }
}
impl<'a> ser::SerializeStruct for &'a mut Ser {
    type Ok = ();
    type Error = Error;
    fn serialize_field<T: ?Sized + Serialize>(&mut self, _: &'static str, v: &T) -> Result<(), Error> {
        v.serialize(&mut **self)
    }
    fn end(self) -> Result<(), Error> {
        Ok(())
    }
}
impl<'a> ser::SerializeStructVariant for &'a mut Ser {
    type Ok = ();
    type Error = Error;
    fn serialize_field<T: ?Sized + Serialize>(&mut self, _: &'static str, v: &T) -> Result<(), Error> {
        v.serialize(&mut **self)
    }
    fn end(self) -> Result<(), Error> {
        Ok(())
    }
}

pub struct De<'de> {
    inp: &'de [u8],
}

impl<'de> De<'de> {
    fn take(&mut self, n: usize) -> Result<&'de [u8], Error> {
        if self.inp.len() < n {
            return Err(Error(format!("unexpected end of input (need {n}, have {})", self.inp.len())));
        }
        let (a, b) = self.inp.split_at(n);
        self.inp = b;
        Ok(a)
    }
    fn u64(&mut self) -> Result<u64, Error> {
        Ok(u64::from_le_bytes(self.take(8)?.try_into().unwrap()))
    }
    fn len(&mut self) -> Result<usize, Error> {
        let n = self.u64()?;
        // a length cannot exceed the bytes that are left (every element takes at least one... zero-sized ones aside)
        if n > (self.inp.len() as u64).saturating_add(1 << 20) {
            return Err(Error(format!("implausible length {n}")));
        }
        Ok(n as usize)
    }
}

macro_rules! de_num {
    ($f:ident, $visit:ident, $t:ty, $n:expr) => {
        fn $f<V: Visitor<'de>>(self, v: V) -> Result<V::Value, Error> {
            v.$visit(<$t>::from_le_bytes(self.take($n)?.try_into().unwrap()))
        }
    };
}

impl<'de, 'a> de::Deserializer<'de> for &'a mut De<'de> {
    type Error = Error;
    fn deserialize_any<V: Visitor<'de>>(self, _: V) -> Result<V::Value, Error> {
        Err(Error("not self-describing: deserialize_any is not supported".into()))
    }
    fn deserialize_bool<V: Visitor<'de>>(self, v: V) -> Result<V::Value, Error> {
        match self.take(1)?[0] {
            0 => v.visit_bool(false),
            1 => v.visit_bool(true),
            b => Err(Error(format!("bad bool {b}"))),
        }
    }
    de_num!(deserialize_i8, visit_i8, i8, 1);
    de_num!(deserialize_i16, visit_i16, i16, 2);
    de_num!(deserialize_i32, visit_i32, i32, 4);
    de_num!(deserialize_i64, visit_i64, i64, 8);
    de_num!(deserialize_u8, visit_u8, u8, 1);
    de_num!(deserialize_u16, visit_u16, u16, 2);
    de_num!(deserialize_u32, visit_u32, u32, 4);
    de_num!(deserialize_u64, visit_u64, u64, 8);
    de_num!(deserialize_f32, visit_f32, f32, 4);
    de_num!(deserialize_f64, visit_f64, f64, 8);
    fn deserialize_char<V: Visitor<'de>>(self, v: V) -> Result<V::Value, Error> {
        let c = u32::from_le_bytes(self.take(4)?.try_into().unwrap());
        v.visit_char(char::from_u32(c).ok_or_else(|| Error("bad char".into()))?)
    }
    fn deserialize_str<V: Visitor<'de>>(self, v: V) -> Result<V::Value, Error> {
        let n = self.len()?;
        let b = self.take(n)?;
        v.visit_borrowed_str(std::str::from_utf8(b).map_err(|e| Error(e.to_string()))?)
    }
    fn deserialize_string<V: Visitor<'de>>(self, v: V) -> Result<V::Value, Error> {
        self.deserialize_str(v)
    }
    fn deserialize_bytes<V: Visitor<'de>>(self, v: V) -> Result<V::Value, Error> {
        let n = self.len()?;
        v.visit_borrowed_bytes(self.take(n)?)
    }
    fn deserialize_byte_buf<V: Visitor<'de>>(self, v: V) -> Result<V::Value, Error> {
        self.deserialize_bytes(v)
    }
    fn deserialize_option<V: Visitor<'de>>(self, v: V) -> Result<V::Value, Error> {
        match self.take(1)?[0] {
            0 => v.visit_none(),
            1 => v.visit_some(self),
            b => Err(Error(format!("bad option tag {b}"))),
        }
    }
    fn deserialize_unit<V: Visitor<'de>>(self, v: V) -> Result<V::Value, Error> {
        v.visit_unit()
    }
    fn deserialize_unit_struct<V: Visitor<'de>>(self, _: &'static str, v: V) -> Result<V::Value, Error> {
        v.visit_unit()
    }
    fn deserialize_newtype_struct<V: Visitor<'de>>(self, _: &'static str, v: V) -> Result<V::Value, Error> {
        v.visit_newtype_struct(self)
    }
    fn deserialize_seq<V: Visitor<'de>>(self, v: V) -> Result<V::Value, Error> {
        let n = self.len()?;
        v.visit_seq(Counted { de: self, left: n })
    }
    fn deserialize_tuple<V: Visitor<'de>>(self, n: usize, v: V) -> Result<V::Value, Error> {
        v.visit_seq(Counted { de: self, left: n })
    }
    fn deserialize_tuple_struct<V: Visitor<'de>>(self, _: &'static str, n: usize, v: V) -> Result<V::Value, Error> {
        v.visit_seq(Counted { de: self, left: n })
    }
    fn deserialize_map<V: Visitor<'de>>(self, _: V) -> Result<V::Value, Error> {
        Err(Error("maps are not supported".into()))
    }
    fn deserialize_struct<V: Visitor<'de>>(self, _: &'static str, fields: &'static [&'static str], v: V) -> Result<V::Value, Error> {
        v.visit_seq(Counted { de: self, left: fields.len() })
    }
    fn deserialize_enum<V: Visitor<'de>>(self, _: &'static str, _: &'static [&'static str], _: V) -> Result<V::Value, Error> {
        Err(Error("enums are not supported".into()))
    }
    fn deserialize_identifier<V: Visitor<'de>>(self, _: V) -> Result<V::Value, Error> {
        Err(Error("identifiers are not supported (positional format)".into()))
    }
    fn deserialize_ignored_any<V: Visitor<'de>>(self, _: V) -> Result<V::Value, Error> {
        Err(Error("cannot skip a value in a positional format".into()))
    }
    fn is_human_readable(&self) -> bool {
        false
    }
}

struct Counted<'a, 'de> {
    de: &'a mut De<'de>,
    left: usize,
}
impl<'a, 'de> SeqAccess<'de> for Counted<'a, 'de> {
    type Error = Error;
    fn next_element_seed<T: DeserializeSeed<'de>>(&mut self, seed: T) -> Result<Option<T::Value>, Error> {
        if self.left == 0 {
            return Ok(None);
        }
        self.left -= 1;
        seed.deserialize(&mut *self.de).map(Some)
    }
    fn size_hint(&self) -> Option<usize> {
        Some(self.left)
    }
}
