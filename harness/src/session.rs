//! Whole-API sessions on one object (Library.tla): a piecewise polynomial whose degree changes with
//! derivative / integral, or a piecewise IntOfLogPoly4 (the only shipped piece type with `&a + &b`).
//! One event per public call, logged at return, with the full flattened state after the call.

use crate::common::*;
use crate::structs::*;
use piecewise_polynomial::*;
use serde_json::{json, Value};

/// A piecewise function of any shipped piece type, so that sessions can follow the type changes of
/// derivative / integral: P = polynomial degree k, L = Log<Poly k>, I = IntOfLog<Poly k>, Q = IntOfLogPoly4.
#[derive(Clone)]
pub enum DynPw {
    P0(Piecewise<Poly0>),
    P1(Piecewise<Poly1>),
    P2(Piecewise<Poly2>),
    P3(Piecewise<Poly3>),
    P4(Piecewise<Poly4>),
    P5(Piecewise<Poly5>),
    P6(Piecewise<Poly6>),
    P7(Piecewise<Poly7>),
    P8(Piecewise<Poly8>),
    Q(Piecewise<IntOfLogPoly4>),
    L0(Piecewise<Log<Poly0>>),
    L1(Piecewise<Log<Poly1>>),
    L2(Piecewise<Log<Poly2>>),
    L3(Piecewise<Log<Poly3>>),
    L4(Piecewise<Log<Poly4>>),
    L5(Piecewise<Log<Poly5>>),
    L6(Piecewise<Log<Poly6>>),
    L7(Piecewise<Log<Poly7>>),
    L8(Piecewise<Log<Poly8>>),
    I0(Piecewise<IntOfLog<Poly0>>),
    I1(Piecewise<IntOfLog<Poly1>>),
    I2(Piecewise<IntOfLog<Poly2>>),
    I3(Piecewise<IntOfLog<Poly3>>),
    I5(Piecewise<IntOfLog<Poly5>>),
    I6(Piecewise<IntOfLog<Poly6>>),
    I7(Piecewise<IntOfLog<Poly7>>),
    I8(Piecewise<IntOfLog<Poly8>>),
}

macro_rules! each {
    ($self:expr, $p:ident => $body:expr) => {
        match $self {
            DynPw::P0($p) => $body,
            DynPw::P1($p) => $body,
            DynPw::P2($p) => $body,
            DynPw::P3($p) => $body,
            DynPw::P4($p) => $body,
            DynPw::P5($p) => $body,
            DynPw::P6($p) => $body,
            DynPw::P7($p) => $body,
            DynPw::P8($p) => $body,
            DynPw::Q($p) => $body,
            DynPw::L0($p) => $body,
            DynPw::L1($p) => $body,
            DynPw::L2($p) => $body,
            DynPw::L3($p) => $body,
            DynPw::L4($p) => $body,
            DynPw::L5($p) => $body,
            DynPw::L6($p) => $body,
            DynPw::L7($p) => $body,
            DynPw::L8($p) => $body,
            DynPw::I0($p) => $body,
            DynPw::I1($p) => $body,
            DynPw::I2($p) => $body,
            DynPw::I3($p) => $body,
            DynPw::I5($p) => $body,
            DynPw::I6($p) => $body,
            DynPw::I7($p) => $body,
            DynPw::I8($p) => $body,
        }
    };
}

impl DynPw {
    pub fn kind(&self) -> &'static str {
        match self {
            DynPw::P0(_) | DynPw::P1(_) | DynPw::P2(_) | DynPw::P3(_) | DynPw::P4(_) | DynPw::P5(_) | DynPw::P6(_) | DynPw::P7(_) | DynPw::P8(_) => "poly",
            DynPw::Q(_) => "q",
            DynPw::L0(_) | DynPw::L1(_) | DynPw::L2(_) | DynPw::L3(_) | DynPw::L4(_) | DynPw::L5(_) | DynPw::L6(_) | DynPw::L7(_) | DynPw::L8(_) => "log",
            DynPw::I0(_) | DynPw::I1(_) | DynPw::I2(_) | DynPw::I3(_) | DynPw::I5(_) | DynPw::I6(_) | DynPw::I7(_) | DynPw::I8(_) => "intoflog",
        }
    }
    pub fn ends(&self) -> Vec<f64> {
        each!(self, p => ends_of(p))
    }
    pub fn pieces(&self) -> Vec<Vec<f64>> {
        each!(self, p => p.segments.iter().map(|s| s.poly.flat()).collect())
    }
    pub fn state(&self) -> (Value, Value) {
        (jbs(&self.ends()), Value::Array(self.pieces().iter().map(|v| jbs(v)).collect()))
    }
    pub fn evaluate(&self, x: f64) -> f64 {
        each!(self, p => p.evaluate(x))
    }
    /// In-place edits through the public fields (same object, same buffer).
    pub fn set_end(&mut self, i: usize, e: f64) {
        each!(self, p => p.segments[i].end = e)
    }
    pub fn pop(&mut self) {
        each!(self, p => { p.segments.pop(); })
    }
    pub fn edit(&mut self, rng: &mut Rng) {
        let keep_positive = self.kind() != "poly"; // log forms live on v > 0: their breakpoints stay positive
        each!(self, p => {
            let old: Vec<f64> = p.segments.iter().map(|s| s.end).collect();
            crate::order::edit_in_place(rng, p, true);
            if keep_positive && p.segments.iter().any(|s| !(s.end > 0.0)) && p.segments.len() == old.len() {
                for (s, e) in p.segments.iter_mut().zip(old) {
                    s.end = e;
                }
            }
        })
    }
    pub fn has_mul_assign(&self) -> bool {
        !matches!(self, DynPw::Q(_))
    }
    pub fn scale(self, s: f64, assign: bool) -> DynPw {
        match self {
            DynPw::P0(p) => DynPw::P0(if assign { let mut q = p; q *= s; q } else { p * s }),
            DynPw::P1(p) => DynPw::P1(if assign { let mut q = p; q *= s; q } else { p * s }),
            DynPw::P2(p) => DynPw::P2(if assign { let mut q = p; q *= s; q } else { p * s }),
            DynPw::P3(p) => DynPw::P3(if assign { let mut q = p; q *= s; q } else { p * s }),
            DynPw::P4(p) => DynPw::P4(if assign { let mut q = p; q *= s; q } else { p * s }),
            DynPw::P5(p) => DynPw::P5(if assign { let mut q = p; q *= s; q } else { p * s }),
            DynPw::P6(p) => DynPw::P6(if assign { let mut q = p; q *= s; q } else { p * s }),
            DynPw::P7(p) => DynPw::P7(if assign { let mut q = p; q *= s; q } else { p * s }),
            DynPw::P8(p) => DynPw::P8(if assign { let mut q = p; q *= s; q } else { p * s }),
            DynPw::L0(p) => DynPw::L0(if assign { let mut q = p; q *= s; q } else { p * s }),
            DynPw::L1(p) => DynPw::L1(if assign { let mut q = p; q *= s; q } else { p * s }),
            DynPw::L2(p) => DynPw::L2(if assign { let mut q = p; q *= s; q } else { p * s }),
            DynPw::L3(p) => DynPw::L3(if assign { let mut q = p; q *= s; q } else { p * s }),
            DynPw::L4(p) => DynPw::L4(if assign { let mut q = p; q *= s; q } else { p * s }),
            DynPw::L5(p) => DynPw::L5(if assign { let mut q = p; q *= s; q } else { p * s }),
            DynPw::L6(p) => DynPw::L6(if assign { let mut q = p; q *= s; q } else { p * s }),
            DynPw::L7(p) => DynPw::L7(if assign { let mut q = p; q *= s; q } else { p * s }),
            DynPw::L8(p) => DynPw::L8(if assign { let mut q = p; q *= s; q } else { p * s }),
            DynPw::I0(p) => DynPw::I0(if assign { let mut q = p; q *= s; q } else { p * s }),
            DynPw::I1(p) => DynPw::I1(if assign { let mut q = p; q *= s; q } else { p * s }),
            DynPw::I2(p) => DynPw::I2(if assign { let mut q = p; q *= s; q } else { p * s }),
            DynPw::I3(p) => DynPw::I3(if assign { let mut q = p; q *= s; q } else { p * s }),
            DynPw::I5(p) => DynPw::I5(if assign { let mut q = p; q *= s; q } else { p * s }),
            DynPw::I6(p) => DynPw::I6(if assign { let mut q = p; q *= s; q } else { p * s }),
            DynPw::I7(p) => DynPw::I7(if assign { let mut q = p; q *= s; q } else { p * s }),
            DynPw::I8(p) => DynPw::I8(if assign { let mut q = p; q *= s; q } else { p * s }),
            DynPw::Q(p) => DynPw::Q(p * s), // IntOfLogPoly4 has no MulAssign
        }
    }
    pub fn translate(self, c: f64) -> DynPw {
        match self {
            DynPw::P0(p) => DynPw::P0({ let mut q = p; q.translate(c); q }),
            DynPw::P1(p) => DynPw::P1({ let mut q = p; q.translate(c); q }),
            DynPw::P2(p) => DynPw::P2({ let mut q = p; q.translate(c); q }),
            DynPw::P3(p) => DynPw::P3({ let mut q = p; q.translate(c); q }),
            DynPw::P4(p) => DynPw::P4({ let mut q = p; q.translate(c); q }),
            DynPw::P5(p) => DynPw::P5({ let mut q = p; q.translate(c); q }),
            DynPw::P6(p) => DynPw::P6({ let mut q = p; q.translate(c); q }),
            DynPw::P7(p) => DynPw::P7({ let mut q = p; q.translate(c); q }),
            DynPw::P8(p) => DynPw::P8({ let mut q = p; q.translate(c); q }),
            DynPw::Q(p) => DynPw::Q({ let mut q = p; q.translate(c); q }),
            DynPw::L0(p) => DynPw::L0({ let mut q = p; q.translate(c); q }),
            DynPw::L1(p) => DynPw::L1({ let mut q = p; q.translate(c); q }),
            DynPw::L2(p) => DynPw::L2({ let mut q = p; q.translate(c); q }),
            DynPw::L3(p) => DynPw::L3({ let mut q = p; q.translate(c); q }),
            DynPw::L4(p) => DynPw::L4({ let mut q = p; q.translate(c); q }),
            DynPw::L5(p) => DynPw::L5({ let mut q = p; q.translate(c); q }),
            DynPw::L6(p) => DynPw::L6({ let mut q = p; q.translate(c); q }),
            DynPw::L7(p) => DynPw::L7({ let mut q = p; q.translate(c); q }),
            DynPw::L8(p) => DynPw::L8({ let mut q = p; q.translate(c); q }),
            DynPw::I0(p) => DynPw::I0({ let mut q = p; q.translate(c); q }),
            DynPw::I1(p) => DynPw::I1({ let mut q = p; q.translate(c); q }),
            DynPw::I2(p) => DynPw::I2({ let mut q = p; q.translate(c); q }),
            DynPw::I3(p) => DynPw::I3({ let mut q = p; q.translate(c); q }),
            DynPw::I5(p) => DynPw::I5({ let mut q = p; q.translate(c); q }),
            DynPw::I6(p) => DynPw::I6({ let mut q = p; q.translate(c); q }),
            DynPw::I7(p) => DynPw::I7({ let mut q = p; q.translate(c); q }),
            DynPw::I8(p) => DynPw::I8({ let mut q = p; q.translate(c); q }),
        }
    }
    pub fn can_neg(&self) -> bool {
        self.kind() != "log"
    }
    pub fn neg(self) -> DynPw {
        match self {
            DynPw::P0(p) => DynPw::P0(-p),
            DynPw::P1(p) => DynPw::P1(-p),
            DynPw::P2(p) => DynPw::P2(-p),
            DynPw::P3(p) => DynPw::P3(-p),
            DynPw::P4(p) => DynPw::P4(-p),
            DynPw::P5(p) => DynPw::P5(-p),
            DynPw::P6(p) => DynPw::P6(-p),
            DynPw::P7(p) => DynPw::P7(-p),
            DynPw::P8(p) => DynPw::P8(-p),
            DynPw::Q(p) => DynPw::Q(-p),
            DynPw::I0(p) => DynPw::I0(-p),
            DynPw::I1(p) => DynPw::I1(-p),
            DynPw::I2(p) => DynPw::I2(-p),
            DynPw::I3(p) => DynPw::I3(-p),
            DynPw::I5(p) => DynPw::I5(-p),
            DynPw::I6(p) => DynPw::I6(-p),
            DynPw::I7(p) => DynPw::I7(-p),
            DynPw::I8(p) => DynPw::I8(-p),
            other => other,
        }
    }
    pub fn can_derive(&self) -> bool {
        self.kind() == "poly"
    }
    pub fn derive(self) -> DynPw {
        match self {
            DynPw::P0(p) => DynPw::P0(p.derivative()),
            DynPw::P1(p) => DynPw::P0(p.derivative()),
            DynPw::P2(p) => DynPw::P1(p.derivative()),
            DynPw::P3(p) => DynPw::P2(p.derivative()),
            DynPw::P4(p) => DynPw::P3(p.derivative()),
            DynPw::P5(p) => DynPw::P4(p.derivative()),
            DynPw::P6(p) => DynPw::P5(p.derivative()),
            DynPw::P7(p) => DynPw::P6(p.derivative()),
            DynPw::P8(p) => DynPw::P7(p.derivative()),
            other => other,
        }
    }
    pub fn can_integrate(&self) -> bool {
        (self.kind() == "poly" && !matches!(self, DynPw::P8(_))) || self.kind() == "log"
    }
    pub fn integrate(self, k: Knot) -> DynPw {
        match self {
            DynPw::P0(p) => DynPw::P1(p.integral(k)),
            DynPw::P1(p) => DynPw::P2(p.integral(k)),
            DynPw::P2(p) => DynPw::P3(p.integral(k)),
            DynPw::P3(p) => DynPw::P4(p.integral(k)),
            DynPw::P4(p) => DynPw::P5(p.integral(k)),
            DynPw::P5(p) => DynPw::P6(p.integral(k)),
            DynPw::P6(p) => DynPw::P7(p.integral(k)),
            DynPw::P7(p) => DynPw::P8(p.integral(k)),
            DynPw::L0(p) => DynPw::I0(p.integral(k)),
            DynPw::L1(p) => DynPw::I1(p.integral(k)),
            DynPw::L2(p) => DynPw::I2(p.integral(k)),
            DynPw::L3(p) => DynPw::I3(p.integral(k)),
            DynPw::L5(p) => DynPw::I5(p.integral(k)),
            DynPw::L6(p) => DynPw::I6(p.integral(k)),
            DynPw::L7(p) => DynPw::I7(p.integral(k)),
            DynPw::L8(p) => DynPw::I8(p.integral(k)),
            DynPw::L4(p) => DynPw::Q(p.integral(k)),
            other => other,
        }
    }
}

/// The (1-based) pieces whose OWN evaluation at x gives exactly the bits y: which piece answered, independently of how
/// accurate a piece's evaluation is (that is C01 / C09 / C10's business, not the selection's).
fn matching_pieces<T: Evaluate>(p: &Piecewise<T>, x: f64, y: f64) -> Vec<usize> {
    p.segments.iter().enumerate().filter(|(_, s)| s.poly.evaluate(x).to_bits() == y.to_bits()).map(|(i, _)| i + 1).collect()
}

/// `&f + &g` / `&f - &g` under the watchdog: a merge loop that no longer terminates (or panics) is an outcome to be
/// logged, not something that may take the harness down with it.
fn combine_guarded(f: &Piecewise<IntOfLogPoly4>, g: &Piecewise<IntOfLogPoly4>, sub: bool) -> Result<Piecewise<IntOfLogPoly4>, String> {
    let (f, g) = (f.clone(), g.clone());
    guarded_timeout(30_000, move || if sub { &f - &g } else { &f + &g })
}

fn random_obj(rng: &mut Rng, q: bool) -> DynPw {
    let n = 1 + if rng.below(20) == 0 { 33 + rng.below(100) } else { rng.size(6, 8, 3) } as usize;
    let mut ends: Vec<f64> = match rng.below(3) {
        0 => (0..n).map(|_| rng.range(-3, 3) as f64).collect(),
        1 => (0..n).map(|_| rng.float_exp(-3, 3)).collect(),
        _ => (0..n).map(|_| rng.nice()).collect(),
    };
    ends.sort_by(|a, b| a.partial_cmp(b).unwrap());
    let num = |rng: &mut Rng| if rng.bool() { rng.nice() } else { rng.float_exp(-3, 3) };
    if q {
        return DynPw::Q(Piecewise { segments: ends.iter().map(|&e| Segment { end: e, poly: IntOfLogPoly4::from_flat(&(0..6).map(|_| num(rng)).collect::<Vec<f64>>()) }).collect() });
    }
    let deg = rng.below(5) as usize;
    macro_rules! mk {
        ($V:ident, $T:ty) => {
            DynPw::$V(Piecewise { segments: ends.iter().map(|&e| Segment { end: e, poly: <$T>::from_flat(&(0..deg + 1).map(|_| num(rng)).collect::<Vec<f64>>()) }).collect() })
        };
    }
    match deg {
        0 => mk!(P0, Poly0),
        1 => mk!(P1, Poly1),
        2 => mk!(P2, Poly2),
        3 => mk!(P3, Poly3),
        _ => mk!(P4, Poly4),
    }
}

fn random_log_obj(rng: &mut Rng) -> DynPw {
    let n = 1 + rng.size(6, 6, 3) as usize;
    let mut ends: Vec<f64> = match rng.below(3) {
        0 => (0..n).map(|_| (1 + rng.below(6)) as f64 / 2.0).collect(),
        1 => (0..n).map(|_| rng.float_exp(-3, 3).abs()).collect(),
        _ => (0..n).map(|_| 1.0 + rng.unit() * 1e-2).collect(),
    };
    ends.sort_by(|a, b| a.partial_cmp(b).unwrap());
    let deg = rng.below(9) as usize;
    let num = |rng: &mut Rng| if rng.bool() { rng.nice() } else { rng.float_exp(-3, 3) };
    macro_rules! mk {
        ($V:ident, $T:ty) => {
            DynPw::$V(Piecewise { segments: ends.iter().map(|&e| Segment { end: e, poly: <$T>::from_flat(&(0..deg + 1).map(|_| num(rng)).collect::<Vec<f64>>()) }).collect() })
        };
    }
    match deg {
        0 => mk!(L0, Log<Poly0>),
        1 => mk!(L1, Log<Poly1>),
        2 => mk!(L2, Log<Poly2>),
        3 => mk!(L3, Log<Poly3>),
        4 => mk!(L4, Log<Poly4>),
        5 => mk!(L5, Log<Poly5>),
        6 => mk!(L6, Log<Poly6>),
        7 => mk!(L7, Log<Poly7>),
        _ => mk!(L8, Log<Poly8>),
    }
}

fn arg_point(rng: &mut Rng, ends: &[f64]) -> f64 {
    match rng.below(5) {
        0 => *rng.pick(ends),
        1 => rng.pick(ends).next_down(),
        2 => rng.pick(ends).next_up(),
        3 => rng.float_exp(-3, 3),
        _ => rng.pick(ends) + rng.unit() - 0.5,
    }
}

/// Random sessions.  Returns the number of mutating operations performed.
fn arg_for(rng: &mut Rng, obj: &DynPw, ends: &[f64]) -> f64 {
    if obj.kind() == "poly" {
        return arg_point(rng, ends);
    }
    // log forms live on v > 0
    let x = match rng.below(4) {
        0 => *rng.pick(ends),
        1 => rng.pick(ends).next_down(),
        2 => rng.pick(ends) * (0.5 + rng.unit()),
        _ => rng.float_exp(-4, 4).abs(),
    };
    if x > 0.0 && x.is_finite() { x } else { 1.5 }
}

pub fn drive_session(seed: u64, sessions: usize, sink: &mut Sink) -> usize {
    let mut rng = Rng::new(seed);
    let mut muts = 0;
    for si in 0..sessions {
        // a panic of the code under test ends the session, not the driver (the events so far are judged; panic-freedom
        // itself is C16's, whose drivers record it)
        muts += guarded(|| one_session(&mut rng, si, sink)).unwrap_or(0);
        if hung() {
            break;
        }
    }
    muts
}

fn one_session(rng: &mut Rng, si: usize, sink: &mut Sink) -> usize {
    let mut muts = 0;
    {
        let mut obj = match si % 6 { 3 => random_obj(rng, true), 4 | 5 => random_log_obj(rng), _ => random_obj(rng, false) };
        let (e, p) = obj.state();
        sink.ev(json!({"ev":"lib","op":"create","kind":obj.kind(),"ends":e,"pieces":p}));
        let steps = 2 + rng.below(10);
        for _ in 0..steps {
            let ends = obj.ends();
            match rng.below(12) {
                0 | 1 => {
                    let s = if rng.below(4) == 0 { -1.0 } else { rng.float_exp(-3, 3) };
                    let assign = rng.bool() && obj.has_mul_assign();
                    obj = obj.scale(s, assign);
                    let (e, p) = obj.state();
                    sink.ev(json!({"ev":"lib","op":"scale","s":jb(s),"ends":e,"pieces":p}));
                    muts += 1;
                }
                2 if obj.can_neg() => {
                    obj = obj.neg();
                    let (e, p) = obj.state();
                    sink.ev(json!({"ev":"lib","op":"neg","ends":e,"pieces":p}));
                    muts += 1;
                }
                3 => {
                    let c = if rng.below(5) == 0 { rng.float_exp(-70, -55) } else { rng.float_exp(-3, 3) };
                    obj = obj.translate(c);
                    let (e, p) = obj.state();
                    sink.ev(json!({"ev":"lib","op":"translate","s":jb(c),"ends":e,"pieces":p}));
                    muts += 1;
                }
                4 if obj.can_derive() => {
                    obj = obj.derive();
                    let (e, p) = obj.state();
                    sink.ev(json!({"ev":"lib","op":"derive","ends":e,"pieces":p}));
                    muts += 1;
                }
                5 | 6 if obj.can_integrate() => {
                    let kx = if obj.kind() == "log" {
                        if rng.bool() { ends[0] * (0.2 + 0.8 * rng.unit()) } else { arg_for(rng, &obj, &ends) }
                    } else if rng.bool() {
                        ends[0] - rng.unit()
                    } else {
                        arg_point(rng, &ends)
                    };
                    let k = Knot { x: kx, y: rng.nice() };
                    obj = obj.integrate(k);
                    let (e, p) = obj.state();
                    sink.ev(json!({"ev":"lib","op":"integrate","kx":jb(k.x),"ky":jb(k.y),"kind":obj.kind(),"ends":e,"pieces":p}));
                    muts += 1;
                }
                7 => {
                    if let DynPw::Q(f) = &obj {
                        let g = match random_obj(rng, true) { DynPw::Q(g) => g, _ => unreachable!() };
                        let sub = rng.bool();
                        let r = combine_guarded(f, &g, sub);
                        let gd = DynPw::Q(g);
                        let (ge, gp) = gd.state();
                        match r {
                            Ok(r) => {
                                obj = DynPw::Q(r);
                                let (e, p) = obj.state();
                                sink.ev(json!({"ev":"lib","op":if sub {"sub"} else {"add"},"gends":ge,"gpieces":gp,"ends":e,"pieces":p}));
                            }
                            Err(_) => {
                                // no result: logged as the empty function (which no merge of non-empty operands is), then the session starts over
                                sink.ev(json!({"ev":"lib","op":if sub {"sub"} else {"add"},"gends":ge,"gpieces":gp,"ends":[],"pieces":[]}));
                                if hung() {
                                    return muts;
                                }
                                let (e, p) = obj.state();
                                sink.ev(json!({"ev":"lib","op":"create","kind":obj.kind(),"ends":e,"pieces":p}));
                            }
                        }
                        muts += 1;
                    }
                }
                8 => {
                    let x = arg_for(rng, &obj, &ends);
                    let y = obj.evaluate(x);
                    let m: Vec<usize> = each!(&obj, p => matching_pieces(p, x, y));
                    sink.ev(json!({"ev":"lib","op":"eval","x":jb(x),"y":jb(y),"match":m}));
                }
                11 => {
                    // the caller edits the object in place (public fields), between any two operations
                    obj.edit(rng);
                    let (e, p) = obj.state();
                    sink.ev(json!({"ev":"lib","op":"edit","ends":e,"pieces":p}));
                }
                9 => {
                    // a handle: new, a few queries, drop (the object cannot be touched meanwhile: the borrow)
                    sink.ev(json!({"ev":"lib","op":"new"}));
                    let nq = 1 + rng.below(6);
                    macro_rules! run {
                        ($p:expr) => {{
                            let mut ev = PiecewiseEvaluator::new(&$p.segments);
                            for _ in 0..nq {
                                let x = arg_for(rng, &obj, &ends);
                                let y = ev.evaluate(x);
                                let st = ev.verif_state();
                                let m = matching_pieces($p, x, y);
                                sink.ev(json!({"ev":"lib","op":"query","x":jb(x),"y":jb(y),"match":m,"off":st.0,"tail":st.1,"last":jbits(st.2)}));
                            }
                        }};
                    }
                    each!(&obj, p => run!(p));
                    sink.ev(json!({"ev":"lib","op":"drop"}));
                }
                _ => {
                    // an evaluate_v batch over non-decreasing points
                    let mut xs: Vec<f64> = (0..1 + rng.below(6)).map(|_| arg_for(rng, &obj, &ends)).collect();
                    xs.sort_by(|a, b| a.partial_cmp(b).unwrap());
                    sink.ev(json!({"ev":"lib","op":"vstart"}));
                    let ys: Vec<f64> = each!(&obj, p => p.evaluate_v(xs.clone()).collect());
                    for (x, y) in xs.iter().zip(ys.iter()) {
                        let m: Vec<usize> = each!(&obj, p => matching_pieces(p, *x, *y));
                        sink.ev(json!({"ev":"lib","op":"vnext","x":jb(*x),"y":jb(*y),"match":m}));
                    }
                    sink.ev(json!({"ev":"lib","op":"vend"}));
                }
            }
        }
    }
    muts
}

// ===================================================================== C16: outcomes of every public operation

fn call_event(op: &str, n: usize, m: usize, nan: bool, wf: bool, panic: bool) -> Value {
    json!({"ev":"call","op":op,"n":n,"m":m,"nan":nan,"wf":wf,"panic":panic})
}

/// Every public operation under catch_unwind: on well-formed finite input (wf = true) and on the
/// documented-reject inputs (wf = false).
pub fn drive_nopanic(seed: u64, rounds: usize, sink: &mut Sink) -> usize {
    let mut rng = Rng::new(seed);
    let mut n_wf = 0;
    let ev = |sink: &mut Sink, op: &str, n: usize, m: usize, nan: bool, wf: bool, r: bool| {
        sink.ev(call_event(op, n, m, nan, wf, r));
    };
    for _ in 0..rounds {
        // ---- constructions
        let len = 2 + rng.below(8) as usize;
        let ks: Vec<Knot> = (0..len).map(|_| Knot { x: rng.float_exp(-10, 10), y: rng.float_exp(-10, 10) }).collect();
        ev(sink, "linear", len, 0, false, true, guarded(|| linear(&ks)).is_err());
        let mut xs: Vec<f64> = (0..len + 1).map(|_| rng.float_exp(-10, 10)).collect();
        xs.sort_by(|a, b| a.partial_cmp(b).unwrap());
        xs.dedup();
        if xs.len() >= 3 {
            let ks: Vec<Knot> = xs.iter().map(|&x| Knot { x, y: if rng.below(3) == 0 { 1.0 } else { rng.float_exp(-10, 10) } }).collect();
            ev(sink, "constrained_spline", ks.len(), 0, false, true, guarded(|| constrained_spline(&ks)).is_err());
        }
        n_wf += 2;
        // ---- evaluation on a well-formed function, every argument class
        let isq = rng.below(4) == 0;
        let obj = random_obj(&mut rng, isq);
        let ends = obj.ends();
        let nseg = ends.len();
        for x in [f64::NAN, f64::INFINITY, f64::NEG_INFINITY, 0.0, -0.0, f64::MAX, f64::MIN_POSITIVE, rng.float_exp(-1022, 1023), ends[0]] {
            ev(sink, "evaluate", nseg, 0, false, true, guarded(|| obj.evaluate(x)).is_err());
            let p = guarded(|| each!(&obj, p => { let mut e = PiecewiseEvaluator::new(&p.segments); e.evaluate(x); e.evaluate(ends[0]); e.evaluate(x) })).is_err();
            ev(sink, "evaluator_new", nseg, 0, false, true, p);
            let p = guarded(|| each!(&obj, p => p.evaluate_v(vec![ends[0], x, ends[0]]).count())).is_err();
            ev(sink, "evaluate_v", nseg, 0, false, true, p);
            n_wf += 3;
        }
        // ---- the algebra
        let s = rng.float_exp(-30, 30);
        for (name, r) in [
            ("scale", guarded(|| obj.clone().scale(s, false)).is_err()),
            ("scale_assign", guarded(|| obj.clone().scale(s, true)).is_err()),
            ("neg", guarded(|| obj.clone().neg()).is_err()),
            ("translate", guarded(|| obj.clone().translate(s)).is_err()),
            ("derive", guarded(|| obj.clone().derive()).is_err()),
            ("integrate", guarded(|| obj.clone().integrate(Knot { x: s.abs().min(8.0), y: s })).is_err()),
        ] {
            ev(sink, name, nseg, 0, false, true, r);
            n_wf += 1;
        }
        // indefinite() for the integrable piece types
        macro_rules! indef {
            ($($V:ident),*) => { match &obj { $(DynPw::$V(p) => Some(guarded(|| p.indefinite()).is_err()),)* _ => None } };
        }
        if let Some(r) = indef!(P0, P1, P2, P3, P4, P5, P6, P7) {
            ev(sink, "indefinite", nseg, 0, false, true, r);
            n_wf += 1;
        }
        // + and - on well-formed IntOfLogPoly4 functions
        if let (DynPw::Q(f), DynPw::Q(g)) = (random_obj(&mut rng, true), random_obj(&mut rng, true)) {
            ev(sink, "add", f.segments.len(), g.segments.len(), false, true, guarded(|| &f + &g).is_err());
            ev(sink, "sub", f.segments.len(), g.segments.len(), false, true, guarded(|| &f - &g).is_err());
            n_wf += 2;
            // documented rejections: empty operand, NaN breakpoint
            let empty: Piecewise<IntOfLogPoly4> = Piecewise { segments: vec![] };
            ev(sink, "add", 0, g.segments.len(), false, false, guarded(|| &empty + &g).is_err());
            ev(sink, "sub", f.segments.len(), 0, false, false, guarded(|| &f - &empty).is_err());
            let mut h = g.clone();
            h.segments[0].end = f64::NAN;
            ev(sink, "add", f.segments.len(), h.segments.len(), true, false, guarded(|| &f + &h).is_err());
            ev(sink, "evaluate", 0, 0, false, false, guarded(|| empty.evaluate(1.0)).is_err());
            ev(sink, "evaluate_v", 0, 0, false, false, guarded(|| empty.evaluate_v(vec![1.0]).count()).is_err());
            ev(sink, "evaluator_new", 0, 0, false, false, guarded(|| { PiecewiseEvaluator::new(&empty.segments); }).is_err());
        }
        let short: Vec<Knot> = (0..rng.below(2)).map(|_| Knot { x: 0.0, y: 0.0 }).collect();
        ev(sink, "linear", short.len(), 0, false, false, guarded(|| linear(&short)).is_err());
        let short: Vec<Knot> = (0..rng.below(3)).map(|i| Knot { x: i as f64, y: 0.0 }).collect();
        ev(sink, "constrained_spline", short.len(), 0, false, false, guarded(|| constrained_spline(&short)).is_err());
    }
    n_wf
}

// ===================================================================== spec -> impl: MC_Library's scripts on the real code

/// An exact rational `[n, d]` of the model, under one of the embeddings (abscissae and ordinates scaled separately,
/// order-preserving; the second embedding makes every number inexact in binary).
fn rat(v: &Value, scale: f64) -> f64 {
    if let Some(x) = v.as_f64() {
        return x * scale; // scenario files carry plain floats
    }
    v[0].as_i64().unwrap() as f64 / v[1].as_i64().unwrap() as f64 * scale
}

fn build_obj(kind: &str, ends: &[f64], pieces: &[Vec<f64>]) -> DynPw {
    macro_rules! mk {
        ($V:ident, $T:ty) => {
            DynPw::$V(Piecewise { segments: ends.iter().zip(pieces.iter()).map(|(&e, p)| Segment { end: e, poly: <$T>::from_flat(p) }).collect() })
        };
    }
    if kind == "q" {
        return mk!(Q, IntOfLogPoly4);
    }
    if kind == "log" {
        return match pieces[0].len() - 1 {
            0 => mk!(L0, Log<Poly0>),
            1 => mk!(L1, Log<Poly1>),
            2 => mk!(L2, Log<Poly2>),
            3 => mk!(L3, Log<Poly3>),
            4 => mk!(L4, Log<Poly4>),
            5 => mk!(L5, Log<Poly5>),
            6 => mk!(L6, Log<Poly6>),
            7 => mk!(L7, Log<Poly7>),
            _ => mk!(L8, Log<Poly8>),
        };
    }
    match pieces[0].len() - 1 {
        0 => mk!(P0, Poly0),
        1 => mk!(P1, Poly1),
        2 => mk!(P2, Poly2),
        3 => mk!(P3, Poly3),
        4 => mk!(P4, Poly4),
        5 => mk!(P5, Poly5),
        6 => mk!(P6, Poly6),
        7 => mk!(P7, Poly7),
        _ => mk!(P8, Poly8),
    }
}

/// The read-only operations between two mutations, with the handle and the batch iterator alive across them exactly as
/// the script says (shared borrows of the same object, which is what the model's `Borrow` invariant is about).
fn run_readonly<T: Evaluate>(p: &Piecewise<T>, ops: &[&Value], sx: f64, sink: &mut Sink) {
    use std::cell::RefCell;
    use std::collections::VecDeque;
    use std::rc::Rc;
    let mut handle: Option<PiecewiseEvaluator<T>> = None;
    let feed: Rc<RefCell<VecDeque<f64>>> = Rc::new(RefCell::new(VecDeque::new()));
    let mut batch: Option<Box<dyn Iterator<Item = f64> + '_>> = None;
    for o in ops {
        match o["op"].as_str().unwrap() {
            "eval" => {
                let x = rat(&o["x"], sx);
                let y = p.evaluate(x);
                sink.ev(json!({"ev":"lib","op":"eval","x":jb(x),"y":jb(y),"match":matching_pieces(p, x, y)}));
            }
            "new" => {
                handle = Some(PiecewiseEvaluator::new(&p.segments));
                sink.ev(json!({"ev":"lib","op":"new"}));
            }
            "query" => {
                let x = rat(&o["x"], sx);
                let ev = handle.as_mut().expect("script queries without a handle");
                let y = ev.evaluate(x);
                let st = ev.verif_state();
                sink.ev(json!({"ev":"lib","op":"query","x":jb(x),"y":jb(y),"match":matching_pieces(p, x, y),"off":st.0,"tail":st.1,"last":jbits(st.2)}));
            }
            "drop" => {
                handle = None;
                sink.ev(json!({"ev":"lib","op":"drop"}));
            }
            "vstart" => {
                let f = feed.clone();
                f.borrow_mut().clear();
                batch = Some(Box::new(p.evaluate_v(std::iter::from_fn(move || f.borrow_mut().pop_front()))));
                sink.ev(json!({"ev":"lib","op":"vstart"}));
            }
            "vnext" => {
                let x = rat(&o["x"], sx);
                feed.borrow_mut().push_back(x);
                let y = batch.as_mut().expect("script feeds without a batch").next().expect("evaluate_v yielded nothing for an input");
                sink.ev(json!({"ev":"lib","op":"vnext","x":jb(x),"y":jb(y),"match":matching_pieces(p, x, y)}));
            }
            "vend" => {
                batch = None;
                sink.ev(json!({"ev":"lib","op":"vend"}));
            }
            other => panic!("not a read-only operation: {other}"),
        }
    }
}

/// Every script (TLC's from MC_Library `EmitScript`, or a scenario file's) under the given embeddings, as ordinary `lib` events.
pub fn replay_lib(lines: &[Value], embeddings: &[(f64, f64)], sink: &mut Sink) -> usize {
    let mut n = 0;
    for l in lines {
        let kind = l["kind"].as_str().unwrap();
        let ops = l["ops"].as_array().unwrap();
        for &(sx, sy) in embeddings {
            // the quartic form lives on v > 0: shift nothing, but its values at x <= 0 are out of the trace spec's scope
            let ends_of_v = |v: &Value| v.as_array().unwrap().iter().map(|e| rat(e, sx)).collect::<Vec<f64>>();
            let pieces_of_v = |v: &Value| v.as_array().unwrap().iter().map(|p| p.as_array().unwrap().iter().map(|c| rat(c, sy)).collect::<Vec<f64>>()).collect::<Vec<_>>();
            let mut obj = build_obj(kind, &ends_of_v(&ops[0]["ends"]), &pieces_of_v(&ops[0]["pieces"]));
            let (e, p) = obj.state();
            sink.ev(json!({"ev":"lib","op":"create","kind":obj.kind(),"ends":e,"pieces":p}));
            n += 1;
            let mut i = 1;
            while i < ops.len() {
                let o = &ops[i];
                match o["op"].as_str().unwrap() {
                    "scale" => {
                        let s = rat(&o["s"], 1.0);
                        let assign = o["assign"].as_bool().unwrap_or((i + n) % 2 == 0) && obj.has_mul_assign();
                        obj = match guarded(|| obj.clone().scale(s, assign)) { Ok(o) => o, Err(_) => break };
                        let (e, p) = obj.state();
                        sink.ev(json!({"ev":"lib","op":"scale","s":jb(s),"ends":e,"pieces":p}));
                    }
                    "neg" => {
                        obj = match guarded(|| obj.clone().neg()) { Ok(o) => o, Err(_) => break };
                        let (e, p) = obj.state();
                        sink.ev(json!({"ev":"lib","op":"neg","ends":e,"pieces":p}));
                    }
                    "translate" => {
                        let c = rat(&o["s"], sy);
                        obj = match guarded(|| obj.clone().translate(c)) { Ok(o) => o, Err(_) => break };
                        let (e, p) = obj.state();
                        sink.ev(json!({"ev":"lib","op":"translate","s":jb(c),"ends":e,"pieces":p}));
                    }
                    "derive" => {
                        obj = match guarded(|| obj.clone().derive()) { Ok(o) => o, Err(_) => break };
                        let (e, p) = obj.state();
                        sink.ev(json!({"ev":"lib","op":"derive","ends":e,"pieces":p}));
                    }
                    "editend" => {
                        // (the script is the MODEL's: if the real object has become shorter than the model's -- a defect
                        //  the previous event already shows -- the rest of the script has nothing to run on)
                        let ix = o["i"].as_u64().unwrap() as usize - 1;
                        if ix >= obj.ends().len() {
                            break;
                        }
                        obj.set_end(ix, rat(&o["e"], sx));
                        let (e, p) = obj.state();
                        sink.ev(json!({"ev":"lib","op":"edit","ends":e,"pieces":p}));
                    }
                    "pop" => {
                        if obj.ends().len() <= 1 {
                            break;
                        }
                        obj.pop();
                        let (e, p) = obj.state();
                        sink.ev(json!({"ev":"lib","op":"edit","ends":e,"pieces":p}));
                    }
                    "integrate" => {
                        let k = Knot { x: rat(&o["kx"], sx), y: rat(&o["ky"], sy) };
                        obj = match guarded(|| obj.clone().integrate(k)) { Ok(o) => o, Err(_) => break };
                        let (e, p) = obj.state();
                        sink.ev(json!({"ev":"lib","op":"integrate","kx":jb(k.x),"ky":jb(k.y),"kind":obj.kind(),"ends":e,"pieces":p}));
                    }
                    name @ ("add" | "sub") => {
                        let g = build_obj(kind, &ends_of_v(&o["g"]["ends"]), &pieces_of_v(&o["g"]["pieces"]));
                        let (ge, gp) = g.state();
                        let r = match (&obj, &g) {
                            (DynPw::Q(f), DynPw::Q(g)) => combine_guarded(f, g, name == "sub"),
                            // the library offers + and - for no polynomial piece type: the step is not replayable
                            _ => break,
                        };
                        match r {
                            Ok(r) => {
                                obj = DynPw::Q(r);
                                let (e, p) = obj.state();
                                sink.ev(json!({"ev":"lib","op":name,"gends":ge,"gpieces":gp,"ends":e,"pieces":p}));
                            }
                            Err(_) => {
                                sink.ev(json!({"ev":"lib","op":name,"gends":ge,"gpieces":gp,"ends":[],"pieces":[]}));
                                if hung() {
                                    return n + 1;
                                }
                                n += 1;
                                break; // the rest of this script has no object to run on
                            }
                        }
                    }
                    _ => {
                        let mut j = i;
                        while j < ops.len() && matches!(ops[j]["op"].as_str().unwrap(), "eval" | "new" | "query" | "drop" | "vstart" | "vnext" | "vend") {
                            j += 1;
                        }
                        let run: Vec<&Value> = ops[i..j].iter().collect();
                        if guarded(|| each!(&obj, p => run_readonly(p, &run, sx, sink))).is_err() {
                            break; // a panic of the code under test inside a read-only run: C16's drivers own that verdict
                        }
                        n += j - i;
                        i = j;
                        continue;
                    }
                }
                n += 1;
                i += 1;
            }
        }
    }
    n
}
