//! Whole-API sessions on one object (Library.tla): a piecewise polynomial whose degree changes with
//! derivative / integral, or a piecewise IntOfLogPoly4 (the only shipped piece type with `&a + &b`).
//! One event per public call, logged at return, with the full flattened state after the call.

use crate::common::*;
use crate::structs::*;
use piecewise_polynomial::*;
use serde_json::{json, Value};

#[derive(Clone)]
pub enum DynPw {
    P0(Piecewise<Poly0>),
    P1(Piecewise<Poly1>),
    P2(Piecewise<Poly2>),
    P3(Piecewise<Poly3>),
    P4(Piecewise<Poly4>),
    P5(Piecewise<Poly5>),
    P6(Piecewise<Poly6>),
    P7(Piecewise<Poly7>),
    P8(Piecewise<Poly8>),
    Q(Piecewise<IntOfLogPoly4>),
}

macro_rules! each {
    ($self:expr, $p:ident => $body:expr) => {
        match $self {
            DynPw::P0($p) => $body,
            DynPw::P1($p) => $body,
            DynPw::P2($p) => $body,
            DynPw::P3($p) => $body,
            DynPw::P4($p) => $body,
            DynPw::P5($p) => $body,
            DynPw::P6($p) => $body,
            DynPw::P7($p) => $body,
            DynPw::P8($p) => $body,
            DynPw::Q($p) => $body,
        }
    };
}
macro_rules! each_wrap {
    ($self:expr, $p:ident => $body:expr) => {
        match $self {
            DynPw::P0($p) => DynPw::P0($body),
            DynPw::P1($p) => DynPw::P1($body),
            DynPw::P2($p) => DynPw::P2($body),
            DynPw::P3($p) => DynPw::P3($body),
            DynPw::P4($p) => DynPw::P4($body),
            DynPw::P5($p) => DynPw::P5($body),
            DynPw::P6($p) => DynPw::P6($body),
            DynPw::P7($p) => DynPw::P7($body),
            DynPw::P8($p) => DynPw::P8($body),
            DynPw::Q($p) => DynPw::Q($body),
        }
    };
}

impl DynPw {
    pub fn kind(&self) -> &'static str {
        match self {
            DynPw::Q(_) => "q",
            _ => "poly",
        }
    }
    pub fn ends(&self) -> Vec<f64> {
        each!(self, p => ends_of(p))
    }
    pub fn pieces(&self) -> Vec<Vec<f64>> {
        each!(self, p => p.segments.iter().map(|s| s.poly.flat()).collect())
    }
    pub fn state(&self) -> (Value, Value) {
        (jbs(&self.ends()), Value::Array(self.pieces().iter().map(|v| jbs(v)).collect()))
    }
    pub fn evaluate(&self, x: f64) -> f64 {
        each!(self, p => p.evaluate(x))
    }
    pub fn scale(self, s: f64, assign: bool) -> DynPw {
        macro_rules! sc {
            ($V:ident, $p:expr) => {
                DynPw::$V(if assign { let mut q = $p; q *= s; q } else { $p * s })
            };
        }
        match self {
            DynPw::P0(p) => sc!(P0, p),
            DynPw::P1(p) => sc!(P1, p),
            DynPw::P2(p) => sc!(P2, p),
            DynPw::P3(p) => sc!(P3, p),
            DynPw::P4(p) => sc!(P4, p),
            DynPw::P5(p) => sc!(P5, p),
            DynPw::P6(p) => sc!(P6, p),
            DynPw::P7(p) => sc!(P7, p),
            DynPw::P8(p) => sc!(P8, p),
            DynPw::Q(p) => DynPw::Q(p * s), // IntOfLogPoly4 has no MulAssign
        }
    }
    pub fn translate(self, c: f64) -> DynPw {
        each_wrap!(self, p => { let mut q = p; q.translate(c); q })
    }
    pub fn neg(self) -> DynPw {
        each_wrap!(self, p => -p)
    }
    pub fn can_derive(&self) -> bool {
        !matches!(self, DynPw::Q(_))
    }
    pub fn derive(self) -> DynPw {
        match self {
            DynPw::P0(p) => DynPw::P0(p.derivative()),
            DynPw::P1(p) => DynPw::P0(p.derivative()),
            DynPw::P2(p) => DynPw::P1(p.derivative()),
            DynPw::P3(p) => DynPw::P2(p.derivative()),
            DynPw::P4(p) => DynPw::P3(p.derivative()),
            DynPw::P5(p) => DynPw::P4(p.derivative()),
            DynPw::P6(p) => DynPw::P5(p.derivative()),
            DynPw::P7(p) => DynPw::P6(p.derivative()),
            DynPw::P8(p) => DynPw::P7(p.derivative()),
            q => q,
        }
    }
    pub fn can_integrate(&self) -> bool {
        !matches!(self, DynPw::Q(_) | DynPw::P8(_))
    }
    pub fn integrate(self, k: Knot) -> DynPw {
        match self {
            DynPw::P0(p) => DynPw::P1(p.integral(k)),
            DynPw::P1(p) => DynPw::P2(p.integral(k)),
            DynPw::P2(p) => DynPw::P3(p.integral(k)),
            DynPw::P3(p) => DynPw::P4(p.integral(k)),
            DynPw::P4(p) => DynPw::P5(p.integral(k)),
            DynPw::P5(p) => DynPw::P6(p.integral(k)),
            DynPw::P6(p) => DynPw::P7(p.integral(k)),
            DynPw::P7(p) => DynPw::P8(p.integral(k)),
            other => other,
        }
    }
}

fn random_obj(rng: &mut Rng, q: bool) -> DynPw {
    let n = 1 + rng.size(6, 8, 3) as usize;
    let mut ends: Vec<f64> = match rng.below(3) {
        0 => (0..n).map(|_| rng.range(-3, 3) as f64).collect(),
        1 => (0..n).map(|_| rng.float_exp(-3, 3)).collect(),
        _ => (0..n).map(|_| rng.nice()).collect(),
    };
    ends.sort_by(|a, b| a.partial_cmp(b).unwrap());
    let num = |rng: &mut Rng| if rng.bool() { rng.nice() } else { rng.float_exp(-3, 3) };
    if q {
        return DynPw::Q(Piecewise { segments: ends.iter().map(|&e| Segment { end: e, poly: IntOfLogPoly4::from_flat(&(0..6).map(|_| num(rng)).collect::<Vec<f64>>()) }).collect() });
    }
    let deg = rng.below(5) as usize;
    macro_rules! mk {
        ($V:ident, $T:ty) => {
            DynPw::$V(Piecewise { segments: ends.iter().map(|&e| Segment { end: e, poly: <$T>::from_flat(&(0..deg + 1).map(|_| num(rng)).collect::<Vec<f64>>()) }).collect() })
        };
    }
    match deg {
        0 => mk!(P0, Poly0),
        1 => mk!(P1, Poly1),
        2 => mk!(P2, Poly2),
        3 => mk!(P3, Poly3),
        _ => mk!(P4, Poly4),
    }
}

fn arg_point(rng: &mut Rng, ends: &[f64]) -> f64 {
    match rng.below(5) {
        0 => *rng.pick(ends),
        1 => rng.pick(ends).next_down(),
        2 => rng.pick(ends).next_up(),
        3 => rng.float_exp(-3, 3),
        _ => rng.pick(ends) + rng.unit() - 0.5,
    }
}

/// Random sessions.  Returns the number of mutating operations performed.
pub fn drive_session(seed: u64, sessions: usize, sink: &mut Sink) -> usize {
    let mut rng = Rng::new(seed);
    let mut muts = 0;
    for si in 0..sessions {
        let mut obj = random_obj(&mut rng, si % 4 == 3);
        let (e, p) = obj.state();
        sink.ev(json!({"ev":"lib","op":"create","kind":obj.kind(),"ends":e,"pieces":p}));
        let steps = 2 + rng.below(10);
        for _ in 0..steps {
            let ends = obj.ends();
            match rng.below(12) {
                0 | 1 => {
                    let s = if rng.below(4) == 0 { -1.0 } else { rng.float_exp(-3, 3) };
                    let assign = rng.bool() && obj.kind() == "poly";
                    obj = obj.scale(s, assign);
                    let (e, p) = obj.state();
                    sink.ev(json!({"ev":"lib","op":"scale","s":jb(s),"ends":e,"pieces":p}));
                    muts += 1;
                }
                2 => {
                    obj = obj.neg();
                    let (e, p) = obj.state();
                    sink.ev(json!({"ev":"lib","op":"neg","ends":e,"pieces":p}));
                    muts += 1;
                }
                3 => {
                    let c = if rng.below(5) == 0 { rng.float_exp(-70, -55) } else { rng.float_exp(-3, 3) };
                    obj = obj.translate(c);
                    let (e, p) = obj.state();
                    sink.ev(json!({"ev":"lib","op":"translate","s":jb(c),"ends":e,"pieces":p}));
                    muts += 1;
                }
                4 if obj.can_derive() => {
                    obj = obj.derive();
                    let (e, p) = obj.state();
                    sink.ev(json!({"ev":"lib","op":"derive","ends":e,"pieces":p}));
                    muts += 1;
                }
                5 | 6 if obj.can_integrate() => {
                    let k = Knot { x: if rng.bool() { ends[0] - rng.unit() } else { arg_point(&mut rng, &ends) }, y: rng.nice() };
                    obj = obj.integrate(k);
                    let (e, p) = obj.state();
                    sink.ev(json!({"ev":"lib","op":"integrate","kx":jb(k.x),"ky":jb(k.y),"ends":e,"pieces":p}));
                    muts += 1;
                }
                7 => {
                    if let DynPw::Q(f) = &obj {
                        let g = match random_obj(&mut rng, true) { DynPw::Q(g) => g, _ => unreachable!() };
                        let sub = rng.bool();
                        let r = if sub { f - &g } else { f + &g };
                        let gd = DynPw::Q(g);
                        let (ge, gp) = gd.state();
                        obj = DynPw::Q(r);
                        let (e, p) = obj.state();
                        sink.ev(json!({"ev":"lib","op":if sub {"sub"} else {"add"},"gends":ge,"gpieces":gp,"ends":e,"pieces":p}));
                        muts += 1;
                    }
                }
                8 => {
                    let x = arg_point(&mut rng, &ends);
                    let y = obj.evaluate(x);
                    sink.ev(json!({"ev":"lib","op":"eval","x":jb(x),"y":jb(y)}));
                }
                9 => {
                    // a handle: new, a few queries, drop (the object cannot be touched meanwhile: the borrow)
                    sink.ev(json!({"ev":"lib","op":"new"}));
                    let nq = 1 + rng.below(6);
                    macro_rules! run {
                        ($p:expr) => {{
                            let mut ev = PiecewiseEvaluator::new(&$p.segments);
                            for _ in 0..nq {
                                let x = arg_point(&mut rng, &ends);
                                let y = ev.evaluate(x);
                                let st = ev.verif_state();
                                sink.ev(json!({"ev":"lib","op":"query","x":jb(x),"y":jb(y),"off":st.0,"tail":st.1,"last":jbits(st.2)}));
                            }
                        }};
                    }
                    each!(&obj, p => run!(p));
                    sink.ev(json!({"ev":"lib","op":"drop"}));
                }
                _ => {
                    // an evaluate_v batch over non-decreasing points
                    let mut xs: Vec<f64> = (0..1 + rng.below(6)).map(|_| arg_point(&mut rng, &ends)).collect();
                    xs.sort_by(|a, b| a.partial_cmp(b).unwrap());
                    sink.ev(json!({"ev":"lib","op":"vstart"}));
                    let ys: Vec<f64> = each!(&obj, p => p.evaluate_v(xs.clone()).collect());
                    for (x, y) in xs.iter().zip(ys.iter()) {
                        sink.ev(json!({"ev":"lib","op":"vnext","x":jb(*x),"y":jb(*y)}));
                    }
                    sink.ev(json!({"ev":"lib","op":"vend"}));
                }
            }
        }
    }
    muts
}

// ===================================================================== C16: outcomes of every public operation

fn call_event(op: &str, n: usize, m: usize, nan: bool, wf: bool, panic: bool) -> Value {
    json!({"ev":"call","op":op,"n":n,"m":m,"nan":nan,"wf":wf,"panic":panic})
}

/// Every public operation under catch_unwind: on well-formed finite input (wf = true) and on the
/// documented-reject inputs (wf = false).
pub fn drive_nopanic(seed: u64, rounds: usize, sink: &mut Sink) -> usize {
    let mut rng = Rng::new(seed);
    let mut n_wf = 0;
    let ev = |sink: &mut Sink, op: &str, n: usize, m: usize, nan: bool, wf: bool, r: bool| {
        sink.ev(call_event(op, n, m, nan, wf, r));
    };
    for _ in 0..rounds {
        // ---- constructions
        let len = 2 + rng.below(8) as usize;
        let ks: Vec<Knot> = (0..len).map(|_| Knot { x: rng.float_exp(-10, 10), y: rng.float_exp(-10, 10) }).collect();
        ev(sink, "linear", len, 0, false, true, guarded(|| linear(&ks)).is_err());
        let mut xs: Vec<f64> = (0..len + 1).map(|_| rng.float_exp(-10, 10)).collect();
        xs.sort_by(|a, b| a.partial_cmp(b).unwrap());
        xs.dedup();
        if xs.len() >= 3 {
            let ks: Vec<Knot> = xs.iter().map(|&x| Knot { x, y: if rng.below(3) == 0 { 1.0 } else { rng.float_exp(-10, 10) } }).collect();
            ev(sink, "constrained_spline", ks.len(), 0, false, true, guarded(|| constrained_spline(&ks)).is_err());
        }
        n_wf += 2;
        // ---- evaluation on a well-formed function, every argument class
        let isq = rng.below(4) == 0;
        let obj = random_obj(&mut rng, isq);
        let ends = obj.ends();
        let nseg = ends.len();
        for x in [f64::NAN, f64::INFINITY, f64::NEG_INFINITY, 0.0, -0.0, f64::MAX, f64::MIN_POSITIVE, rng.float_exp(-1022, 1023), ends[0]] {
            ev(sink, "evaluate", nseg, 0, false, true, guarded(|| obj.evaluate(x)).is_err());
            let p = guarded(|| each!(&obj, p => { let mut e = PiecewiseEvaluator::new(&p.segments); e.evaluate(x); e.evaluate(ends[0]); e.evaluate(x) })).is_err();
            ev(sink, "evaluator_new", nseg, 0, false, true, p);
            let p = guarded(|| each!(&obj, p => p.evaluate_v(vec![ends[0], x, ends[0]]).count())).is_err();
            ev(sink, "evaluate_v", nseg, 0, false, true, p);
            n_wf += 3;
        }
        // ---- the algebra
        let s = rng.float_exp(-30, 30);
        for (name, r) in [
            ("scale", guarded(|| obj.clone().scale(s, false)).is_err()),
            ("scale_assign", guarded(|| obj.clone().scale(s, true)).is_err()),
            ("neg", guarded(|| obj.clone().neg()).is_err()),
            ("translate", guarded(|| obj.clone().translate(s)).is_err()),
            ("derive", guarded(|| obj.clone().derive()).is_err()),
            ("integrate", guarded(|| obj.clone().integrate(Knot { x: s.abs().min(8.0), y: s })).is_err()),
        ] {
            ev(sink, name, nseg, 0, false, true, r);
            n_wf += 1;
        }
        // indefinite() for the integrable piece types
        macro_rules! indef {
            ($($V:ident),*) => { match &obj { $(DynPw::$V(p) => Some(guarded(|| p.indefinite()).is_err()),)* _ => None } };
        }
        if let Some(r) = indef!(P0, P1, P2, P3, P4, P5, P6, P7) {
            ev(sink, "indefinite", nseg, 0, false, true, r);
            n_wf += 1;
        }
        // + and - on well-formed IntOfLogPoly4 functions
        if let (DynPw::Q(f), DynPw::Q(g)) = (random_obj(&mut rng, true), random_obj(&mut rng, true)) {
            ev(sink, "add", f.segments.len(), g.segments.len(), false, true, guarded(|| &f + &g).is_err());
            ev(sink, "sub", f.segments.len(), g.segments.len(), false, true, guarded(|| &f - &g).is_err());
            n_wf += 2;
            // documented rejections: empty operand, NaN breakpoint
            let empty: Piecewise<IntOfLogPoly4> = Piecewise { segments: vec![] };
            ev(sink, "add", 0, g.segments.len(), false, false, guarded(|| &empty + &g).is_err());
            ev(sink, "sub", f.segments.len(), 0, false, false, guarded(|| &f - &empty).is_err());
            let mut h = g.clone();
            h.segments[0].end = f64::NAN;
            ev(sink, "add", f.segments.len(), h.segments.len(), true, false, guarded(|| &f + &h).is_err());
            ev(sink, "evaluate", 0, 0, false, false, guarded(|| empty.evaluate(1.0)).is_err());
            ev(sink, "evaluate_v", 0, 0, false, false, guarded(|| empty.evaluate_v(vec![1.0]).count()).is_err());
            ev(sink, "evaluator_new", 0, 0, false, false, guarded(|| { PiecewiseEvaluator::new(&empty.segments); }).is_err());
        }
        let short: Vec<Knot> = (0..rng.below(2)).map(|_| Knot { x: 0.0, y: 0.0 }).collect();
        ev(sink, "linear", short.len(), 0, false, false, guarded(|| linear(&short)).is_err());
        let short: Vec<Knot> = (0..rng.below(3)).map(|i| Knot { x: i as f64, y: 0.0 }).collect();
        ev(sink, "constrained_spline", short.len(), 0, false, false, guarded(|| constrained_spline(&short)).is_err());
    }
    n_wf
}
