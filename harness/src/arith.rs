//! Arithmetic properties: drivers that run the real numeric code and log bit patterns, and
//! exact replays of TLC-enumerated integer vectors.

use crate::common::*;
use crate::order::ReplayReport;
use crate::structs::*;
use piecewise_polynomial::*;
use serde_json::{json, Value};

// ===================================================================== generators

/// "interesting" finite scalars
pub fn scalar(rng: &mut Rng) -> f64 {
    match rng.below(10) {
        0 => 0.0,
        1 => -0.0,
        2 => -1.0,
        3 => 1.0,
        4 => rng.float_exp(-300, -200),
        5 => rng.float_exp(200, 300),
        6 => rng.nice(),
        _ => rng.float_exp(-30, 30),
    }
}

/// coefficient vector of the given length, several regimes
pub fn coeffs(rng: &mut Rng, len: usize) -> Vec<f64> {
    match rng.below(6) {
        0 => (0..len).map(|_| rng.float_exp(-20, 20)).collect(),
        1 => (0..len).map(|_| rng.nice()).collect(),
        2 => {
            // single non-zero lane
            let mut v = vec![0.0; len];
            if len > 0 {
                let i = rng.below(len as u64) as usize;
                v[i] = rng.float_exp(-10, 10);
            }
            v
        }
        3 => (0..len).map(|_| rng.range(-9, 9) as f64).collect(),
        4 => (0..len).map(|i| rng.float_exp(-3, 3) * (0.5f64).powi(i as i32 * rng.range(0, 6) as i32)).collect(),
        _ => (0..len).map(|_| if rng.below(3) == 0 { 0.0 } else { rng.float_exp(-60, 60) }).collect(),
    }
}

/// coefficients of prod (x - r_j), computed in f64 (rounded: the point is heavy cancellation near r_j)
fn from_roots(roots: &[f64]) -> Vec<f64> {
    let mut c = vec![1.0];
    for &r in roots {
        let mut d = vec![0.0; c.len() + 1];
        for (i, &ci) in c.iter().enumerate() {
            d[i + 1] += ci;
            d[i] -= ci * r;
        }
        c = d;
    }
    c
}

// ===================================================================== C01 eval

pub fn drive_eval(seed: u64, n: usize, sink: &mut Sink) -> usize {
    let mut rng = Rng::new(seed);
    let mut nontrivial = 0;
    let mut emit = |sink: &mut Sink, form: &str, c: &[f64], x: f64, y: f64| {
        sink.ev(json!({"ev":"eval","form":form,"c":jbs(c),"x":jb(x),"y":jb(y)}));
    };
    for it in 0..n {
        let kind = it % 10;
        match kind {
            // ---- fixed-degree polynomials
            0 | 1 | 2 | 3 | 4 => {
                let len = 1 + rng.below(9) as usize;
                let (c, x) = match rng.below(6) {
                    0 => {
                        // engineered cancellation: evaluate at / next to a root
                        let roots: Vec<f64> = (0..len - 1).map(|_| rng.nice() + rng.range(-3, 3) as f64).collect();
                        let c = from_roots(&roots);
                        let r = if roots.is_empty() { 1.0 } else { *rng.pick(&roots) };
                        let x = match rng.below(4) {
                            0 => r,
                            1 => r.next_up(),
                            2 => r.next_down(),
                            _ => r * (1.0 + 1e-8),
                        };
                        (c, x)
                    }
                    1 => (coeffs(&mut rng, len), if rng.bool() { 0.0 } else { -0.0 }),
                    2 => (coeffs(&mut rng, len), rng.float_exp(-100, -20)),
                    3 => (coeffs(&mut rng, len), rng.float_exp(20, 100)),
                    4 => ((0..len).map(|_| rng.range(-9, 9) as f64).collect(), rng.range(-12, 12) as f64 / 4.0),
                    _ => (coeffs(&mut rng, len), rng.float_exp(-6, 6)),
                };
                let y = poly_eval(&c, x);
                if len > 2 && x != 0.0 {
                    nontrivial += 1;
                }
                emit(sink, "poly", &c, x, y);
            }
            // ---- PolyN, lengths 0..12
            5 | 6 => {
                let len = rng.below(13) as usize;
                let c = coeffs(&mut rng, len);
                let x = if rng.below(5) == 0 { rng.range(-8, 8) as f64 / 2.0 } else { rng.float_exp(-8, 8) };
                let y = PolyN(c.clone()).evaluate(x);
                if len > 2 {
                    nontrivial += 1;
                }
                emit(sink, "polyn", &c, x, y);
            }
            // ---- Log wrappers
            _ => {
                let fixed = kind != 9;
                let len = if fixed { 1 + rng.below(9) as usize } else { rng.below(13) as usize };
                let c = match rng.below(3) {
                    0 => (0..len).map(|_| rng.nice()).collect(),
                    _ => (0..len).map(|_| rng.float_exp(-8, 8)).collect::<Vec<f64>>(),
                };
                let v = match rng.below(8) {
                    0 => 1.0,
                    1 => {
                        let mut v = 1.0f64;
                        for _ in 0..rng.below(2000) {
                            v = if it % 2 == 0 { v.next_up() } else { v.next_down() };
                        }
                        v
                    }
                    2 => rng.float_exp(-1022, 1023).abs(),
                    3 => f64::from_bits(1 + rng.below(1 << 52)), // subnormal
                    4 => rng.float_exp(-60, -1).abs(),
                    5 => rng.float_exp(-3, 3).abs(),
                    6 => (rng.unit() * 1e-3 + 1e-6),
                    _ => rng.float_exp(1, 60).abs(),
                };
                let y = if fixed { log_poly_eval(&c, v) } else { Log(PolyN(c.clone())).evaluate(v) };
                nontrivial += 1;
                emit(sink, if fixed { "log" } else { "logn" }, &c, v, y);
            }
        }
    }
    nontrivial
}

// ===================================================================== calibration of Fl / Val

/// Hardware results of + * / fma sqrt-free primitives with their operands: the trace spec checks
/// that its round-to-nearest of the exact result is what the hardware produced.
pub fn drive_calib(seed: u64, n: usize, sink: &mut Sink) {
    let mut rng = Rng::new(seed ^ 0xCA11B);
    for i in 0..n {
        let (a, b, c) = match i % 5 {
            0 => (rng.float_exp(-40, 40), rng.float_exp(-40, 40), rng.float_exp(-40, 40)),
            1 => (rng.float_exp(-1022, 1023), rng.float_exp(-60, 60), rng.float_exp(-1022, 1023)),
            2 => (f64::from_bits(rng.below(1 << 53)), rng.float_exp(-3, 3), f64::from_bits(rng.below(1 << 52))),
            3 => (rng.nice(), rng.nice(), rng.nice()),
            _ => {
                let a = rng.float_exp(-5, 5);
                (a, rng.float_exp(-5, 5), -a.next_up())
            }
        };
        let b = if b == 0.0 { 1.5 } else { b };
        sink.ev(json!({"ev":"calib","a":jb(a),"b":jb(b),"c":jb(c),
            "add":jb(a + c),"mul":jb(a * b),"div":jb(a / b),"fma":jb(a.mul_add(b, c))}));
    }
}

// ===================================================================== C01 exact replay

fn ivec(v: &Value) -> Vec<i64> {
    v.as_array().unwrap().iter().map(|x| x.as_i64().unwrap()).collect()
}

/// lines: {c:[int], xs:[int], ys:[int], d:[int], q:[int]} from MC_PolyAlgebra.
/// Everything is an exactly representable integer, so whatever the evaluation scheme, the
/// real code must return the model's value bit for bit, also under exact power-of-two scalings
/// (x * 2^a, c_i * 2^(b - a*i)  ->  value * 2^b).
pub fn replay_poly(lines: &[Value], _seed: u64) -> ReplayReport {
    let mut rep = ReplayReport::default();
    let scal: [(i32, i32); 7] = [(0, 0), (1, 0), (-1, 3), (5, -40), (-7, 100), (20, 300), (-20, -300)];
    for l in lines {
        rep.cases += 1;
        let c = ivec(&l["c"]);
        let xs = ivec(&l["xs"]);
        let ys = ivec(&l["ys"]);
        let d = ivec(&l["d"]);
        let q = ivec(&l["q"]);
        let len = c.len();
        if c.iter().filter(|&&v| v != 0).count() >= 2 {
            rep.nontrivial += 1;
        }
        let cf: Vec<f64> = c.iter().map(|&v| v as f64).collect();
        for &(a, b) in &scal {
            let cs: Vec<f64> = cf.iter().enumerate().map(|(i, &v)| v * 2f64.powi(b - a * i as i32)).collect();
            if cs.iter().any(|v| !v.is_finite() || (*v != 0.0 && v.abs() < f64::MIN_POSITIVE)) {
                continue;
            }
            for (k, &xi) in xs.iter().enumerate() {
                let x = xi as f64 * 2f64.powi(a);
                let want = ys[k] as f64 * 2f64.powi(b);
                rep.runs += 1;
                let got_fixed = poly_eval(&cs, x);
                let got_n = PolyN(cs.clone()).evaluate(x);
                // 0 * anything: a zero result may carry either sign
                let same = |g: f64| g.to_bits() == want.to_bits() || (g == 0.0 && want == 0.0);
                if !same(got_fixed) || !same(got_n) {
                    rep.violations.push(json!({"kind":"poly-exact","c":cs.iter().map(|&v| hex(v)).collect::<Vec<_>>(),"c_int":c,
                        "scale":[a,b],"x":hex(x),"expected":hex(want),"fixed_degree":hex(got_fixed),"polyn":hex(got_n)}));
                }
            }
            // Log at v = 1 (ln 1 = 0 exactly): the value is c_0
            let g = log_poly_eval(&cs, 1.0);
            rep.runs += 1;
            if !(g.to_bits() == cs[0].to_bits() || (g == 0.0 && cs[0] == 0.0)) {
                rep.violations.push(json!({"kind":"log-at-1","c":cs.iter().map(|&v| hex(v)).collect::<Vec<_>>(),"got":hex(g)}));
            }
        }
        // formal derivative on integers is exact: bit equality with the model's Deriv
        let got_d: Vec<f64> = crate::with_poly_type!(len, T, { T::from_flat(&cf).derivative().flat() });
        rep.runs += 1;
        if got_d.len() != d.len() || got_d.iter().zip(d.iter()).any(|(&g, &w)| g != w as f64) {
            rep.violations.push(json!({"kind":"derivative-exact","c_int":c,"expected":d,"got":got_d}));
        }
        // log-integral recurrence on integers is exact (quartic form: checked via trace validation)
        if len != 5 {
            let got_q: Vec<f64> = match len {
                1 => Log(Poly0::from_flat(&cf)).indefinite().flat(),
                2 => Log(Poly1::from_flat(&cf)).indefinite().flat(),
                3 => Log(Poly2::from_flat(&cf)).indefinite().flat(),
                4 => Log(Poly3::from_flat(&cf)).indefinite().flat(),
                6 => Log(Poly5::from_flat(&cf)).indefinite().flat(),
                7 => Log(Poly6::from_flat(&cf)).indefinite().flat(),
                8 => Log(Poly7::from_flat(&cf)).indefinite().flat(),
                9 => Log(Poly8::from_flat(&cf)).indefinite().flat(),
                _ => unreachable!(),
            };
            rep.runs += 1;
            let ok = got_q.len() == q.len() + 1 && got_q[0] == 0.0 && got_q[1..].iter().zip(q.iter()).all(|(&g, &w)| g == w as f64);
            if !ok {
                rep.violations.push(json!({"kind":"log-indefinite-exact","p_int":c,"expected_q":q,"got_k_then_q":got_q}));
            }
        }
        if rep.samples.len() < 3 && rep.nontrivial > 0 && len >= 4 {
            rep.samples.push(l.clone());
        }
    }
    rep.violations.truncate(50);
    rep
}
