//! Arithmetic properties: drivers that run the real numeric code and log bit patterns, and
//! exact replays of TLC-enumerated integer vectors.

use crate::common::*;
use crate::order::ReplayReport;
use crate::structs::*;
use piecewise_polynomial::*;
use serde_json::{json, Value};

// ===================================================================== generators

/// "interesting" finite scalars
pub fn scalar(rng: &mut Rng) -> f64 {
    match rng.below(13) {
        // next to the neutral elements: "skip the work if the scalar is (almost) 1 / 0" shortcuts live here
        10 => *rng.pick(&[1.0f64.next_up(), 1.0f64.next_down(), (-1.0f64).next_up(), (-1.0f64).next_down()]),
        11 => rng.float_exp(-56, -50),
        12 => f64::from_bits(1 + rng.below(1 << 52)) * if rng.bool() { 1.0 } else { -1.0 },
        0 => 0.0,
        1 => -0.0,
        2 => -1.0,
        3 => 1.0,
        4 => rng.float_exp(-300, -200),
        5 => rng.float_exp(200, 300),
        6 => rng.nice(),
        _ => rng.float_exp(-30, 30),
    }
}

/// coefficient vector of the given length, several regimes
pub fn coeffs(rng: &mut Rng, len: usize) -> Vec<f64> {
    match rng.below(6) {
        0 => (0..len).map(|_| rng.float_exp(-20, 20)).collect(),
        1 => (0..len).map(|_| rng.nice()).collect(),
        2 => {
            // single non-zero lane
            let mut v = vec![0.0; len];
            if len > 0 {
                let i = rng.below(len as u64) as usize;
                v[i] = rng.float_exp(-10, 10);
            }
            v
        }
        3 => (0..len).map(|_| rng.range(-9, 9) as f64).collect(),
        4 => (0..len).map(|i| rng.float_exp(-3, 3) * (0.5f64).powi(i as i32 * rng.range(0, 6) as i32)).collect(),
        _ => (0..len).map(|_| if rng.below(3) == 0 { 0.0 } else { rng.float_exp(-60, 60) }).collect(),
    }
}

/// coefficients of prod (x - r_j), computed in f64 (rounded: the point is heavy cancellation near r_j)
fn from_roots(roots: &[f64]) -> Vec<f64> {
    let mut c = vec![1.0];
    for &r in roots {
        let mut d = vec![0.0; c.len() + 1];
        for (i, &ci) in c.iter().enumerate() {
            d[i + 1] += ci;
            d[i] -= ci * r;
        }
        c = d;
    }
    c
}

/// Calls of *other* forms at the same argument.  Every evaluate is a pure function: its result must not depend
/// on what was evaluated before it (a shared cache or scratch slot would show here).
/// Successive calls use a different subset and order of the other forms (every rotation of the list, cut to every
/// length 1..5), so each of them is at some point the LAST call before the judged one, with each other one before it.
pub fn disturb(v: f64) {
    use std::hint::black_box;
    use std::sync::atomic::{AtomicUsize, Ordering};
    static TURN: AtomicUsize = AtomicUsize::new(0);
    let t = TURN.fetch_add(1, Ordering::Relaxed);
    let (rot, count) = (t % 5, 1 + (t / 5) % 5);
    for i in 0..count {
        match (rot + i) % 5 {
            0 => { black_box(IntOfLogPoly4 { k: 0.5, coeffs: [1.0, -2.0, 0.25, 3.0], u: 1.5 }.evaluate(v)); }
            1 => { black_box(IntOfLog { k: 1.0, poly: Poly2([1.0, 2.0, 3.0]) }.evaluate(v)); }
            2 => { black_box(Log(Poly3([1.0, -1.0, 0.5, 2.0])).evaluate(v)); }
            3 => { black_box(Poly4([1.0, 2.0, 3.0, 4.0, 5.0]).evaluate(v)); }
            _ => { black_box(PolyN(vec![1.0, 2.0]).evaluate(v)); }
        }
    }
}

// ===================================================================== C01 eval

pub fn drive_eval(seed: u64, n: usize, sink: &mut Sink) -> usize {
    let mut rng = Rng::new(seed);
    let mut nontrivial = 0;
    let emit = |sink: &mut Sink, form: &str, c: &[f64], x: f64, y: f64| {
        sink.ev(json!({"ev":"eval","form":form,"c":jbs(c),"x":jb(x),"y":jb(y)}));
    };
    for it in 0..n {
        let kind = it % 10;
        match kind {
            // ---- fixed-degree polynomials
            0 | 1 | 2 | 3 | 4 => {
                let len = 1 + rng.below(9) as usize;
                let (c, x) = match rng.below(7) {
                    0 => {
                        // engineered cancellation: evaluate at / next to a root
                        let roots: Vec<f64> = (0..len - 1).map(|_| rng.nice() + rng.range(-3, 3) as f64).collect();
                        let c = from_roots(&roots);
                        let r = if roots.is_empty() { 1.0 } else { *rng.pick(&roots) };
                        let x = match rng.below(4) {
                            0 => r,
                            1 => r.next_up(),
                            2 => r.next_down(),
                            _ => r * (1.0 + 1e-8),
                        };
                        (c, x)
                    }
                    1 => (coeffs(&mut rng, len), if rng.bool() { 0.0 } else { -0.0 }),
                    2 => (coeffs(&mut rng, len), rng.float_exp(-100, -20)),
                    3 => (coeffs(&mut rng, len), rng.float_exp(20, 100)),
                    4 => ((0..len).map(|_| rng.range(-9, 9) as f64).collect(), rng.range(-12, 12) as f64 / 4.0),
                    // special arguments: shortcuts like `if x == 1.0` live here
                    5 => (coeffs(&mut rng, len), *rng.pick(&[1.0, -1.0, 2.0, 0.5, -0.5, 1.0f64.next_up(), f64::MIN_POSITIVE, 1e-160, -1e-160])),
                    _ => (coeffs(&mut rng, len), rng.float_exp(-6, 6)),
                };
                if it % 2 == 1 {
                    disturb(x);
                }
                let y = poly_eval(&c, x);
                if len > 2 && x != 0.0 {
                    nontrivial += 1;
                }
                emit(sink, "poly", &c, x, y);
            }
            // ---- PolyN, lengths 0..12
            5 | 6 => {
                let len = rng.below(13) as usize;
                let c = coeffs(&mut rng, len);
                let x = if rng.below(5) == 0 { rng.range(-8, 8) as f64 / 2.0 } else { rng.float_exp(-8, 8) };
                let y = PolyN(c.clone()).evaluate(x);
                if len > 2 {
                    nontrivial += 1;
                }
                emit(sink, "polyn", &c, x, y);
            }
            // ---- Log wrappers
            _ => {
                let fixed = kind != 9;
                let len = if fixed { 1 + rng.below(9) as usize } else { rng.below(13) as usize };
                let mut c = match rng.below(3) {
                    0 => (0..len).map(|_| rng.nice()).collect(),
                    _ => (0..len).map(|_| rng.float_exp(-8, 8)).collect::<Vec<f64>>(),
                };
                // thresholds of "near 1" short-cuts (series for ln, ln_1p, ...) sit a few binades below 1e-2: a dense band
                // there, always with no (or a negligible) constant term so that the value is as small as ln v itself
                let band = rng.below(8) == 0;
                if len > 1 && (band || rng.below(3) == 0) {
                    // no (or a negligible) constant term: the value is then as small as ln v itself
                    c[0] = if rng.bool() { 0.0 } else { c[0] * 1e-12 };
                }
                let v = match if band { 10 } else { rng.below(10) } {
                    10 => {
                        let d = rng.float_exp(-16, -6).abs();
                        if rng.bool() { 1.0 + d } else { 1.0 - d }
                    }
                    // |v - 1| log-uniform over 2^-52 .. 2^-1: a special point must be approached at every scale
                    8 | 9 => {
                        let d = rng.float_exp(-52, -1).abs();
                        if rng.bool() { 1.0 + d } else { 1.0 - d }
                    }
                    0 => 1.0,
                    1 => {
                        let mut v = 1.0f64;
                        for _ in 0..rng.below(2000) {
                            v = if it % 2 == 0 { v.next_up() } else { v.next_down() };
                        }
                        v
                    }
                    2 => rng.float_exp(-1022, 1023).abs(),
                    3 => f64::from_bits(1 + rng.below(1 << 52)), // subnormal
                    4 => rng.float_exp(-60, -1).abs(),
                    5 => rng.float_exp(-3, 3).abs(),
                    6 => rng.unit() * 1e-3 + 1e-6,
                    _ => rng.float_exp(1, 60).abs(),
                };
                if it % 3 != 0 {
                    disturb(v);
                }
                let y = if fixed { log_poly_eval(&c, v) } else { Log(PolyN(c.clone())).evaluate(v) };
                nontrivial += 1;
                emit(sink, if fixed { "log" } else { "logn" }, &c, v, y);
            }
        }
    }
    nontrivial
}

// ===================================================================== calibration of Fl / Val

/// Hardware results of + * / fma sqrt-free primitives with their operands: the trace spec checks
/// that its round-to-nearest of the exact result is what the hardware produced.
pub fn drive_calib(seed: u64, n: usize, sink: &mut Sink) {
    let mut rng = Rng::new(seed ^ 0xCA11B);
    for i in 0..n {
        let (a, b, c) = match i % 5 {
            0 => (rng.float_exp(-40, 40), rng.float_exp(-40, 40), rng.float_exp(-40, 40)),
            1 => (rng.float_exp(-1022, 1023), rng.float_exp(-60, 60), rng.float_exp(-1022, 1023)),
            2 => (f64::from_bits(rng.below(1 << 53)), rng.float_exp(-3, 3), f64::from_bits(rng.below(1 << 52))),
            3 => (rng.nice(), rng.nice(), rng.nice()),
            _ => {
                let a = rng.float_exp(-5, 5);
                (a, rng.float_exp(-5, 5), -a.next_up())
            }
        };
        let b = if b == 0.0 { 1.5 } else { b };
        sink.ev(json!({"ev":"calib","a":jb(a),"b":jb(b),"c":jb(c),
            "add":jb(a + c),"mul":jb(a * b),"div":jb(a / b),"fma":jb(a.mul_add(b, c))}));
    }
}

// ===================================================================== C01 exact replay

fn ivec(v: &Value) -> Vec<i64> {
    v.as_array().unwrap().iter().map(|x| x.as_i64().unwrap()).collect()
}

/// lines: {c:[int], xs:[int], ys:[int], d:[int], q:[int]} from MC_PolyAlgebra.
/// Everything is an exactly representable integer, so whatever the evaluation scheme, the
/// real code must return the model's value bit for bit, also under exact power-of-two scalings
/// (x * 2^a, c_i * 2^(b - a*i)  ->  value * 2^b).
pub fn replay_poly(lines: &[Value], _seed: u64) -> ReplayReport {
    let mut rep = ReplayReport::default();
    let scal: [(i32, i32); 7] = [(0, 0), (1, 0), (-1, 3), (5, -40), (-7, 100), (20, 300), (-20, -300)];
    for l in lines {
        rep.cases += 1;
        let c = ivec(&l["c"]);
        let xs = ivec(&l["xs"]);
        let ys = ivec(&l["ys"]);
        let d = ivec(&l["d"]);
        let q = ivec(&l["q"]);
        let len = c.len();
        if c.iter().filter(|&&v| v != 0).count() >= 2 {
            rep.nontrivial += 1;
        }
        let cf: Vec<f64> = c.iter().map(|&v| v as f64).collect();
        for &(a, b) in &scal {
            let cs: Vec<f64> = cf.iter().enumerate().map(|(i, &v)| v * 2f64.powi(b - a * i as i32)).collect();
            if cs.iter().any(|v| !v.is_finite() || (*v != 0.0 && v.abs() < f64::MIN_POSITIVE)) {
                continue;
            }
            for (k, &xi) in xs.iter().enumerate() {
                let x = xi as f64 * 2f64.powi(a);
                let want = ys[k] as f64 * 2f64.powi(b);
                rep.runs += 1;
                let got_fixed = poly_eval(&cs, x);
                let got_n = PolyN(cs.clone()).evaluate(x);
                // 0 * anything: a zero result may carry either sign
                let same = |g: f64| g.to_bits() == want.to_bits() || (g == 0.0 && want == 0.0);
                if !same(got_fixed) || !same(got_n) {
                    rep.violations.push(json!({"kind":"poly-exact","c":cs.iter().map(|&v| hex(v)).collect::<Vec<_>>(),"c_int":c,
                        "scale":[a,b],"x":hex(x),"expected":hex(want),"fixed_degree":hex(got_fixed),"polyn":hex(got_n)}));
                }
            }
            // Log at v = 1 (ln 1 = 0 exactly): the value is c_0
            let g = log_poly_eval(&cs, 1.0);
            rep.runs += 1;
            if !(g.to_bits() == cs[0].to_bits() || (g == 0.0 && cs[0] == 0.0)) {
                rep.violations.push(json!({"kind":"log-at-1","c":cs.iter().map(|&v| hex(v)).collect::<Vec<_>>(),"got":hex(g)}));
            }
        }
        // formal derivative on integers is exact: bit equality with the model's Deriv
        let got_d: Vec<f64> = crate::with_poly_type!(len, T, { T::from_flat(&cf).derivative().flat() });
        rep.runs += 1;
        if got_d.len() != d.len() || got_d.iter().zip(d.iter()).any(|(&g, &w)| g != w as f64) {
            rep.violations.push(json!({"kind":"derivative-exact","c_int":c,"expected":d,"got":got_d}));
        }
        // log-integral recurrence on integers is exact (quartic form: checked via trace validation)
        if len != 5 {
            let got_q: Vec<f64> = match len {
                1 => Log(Poly0::from_flat(&cf)).indefinite().flat(),
                2 => Log(Poly1::from_flat(&cf)).indefinite().flat(),
                3 => Log(Poly2::from_flat(&cf)).indefinite().flat(),
                4 => Log(Poly3::from_flat(&cf)).indefinite().flat(),
                6 => Log(Poly5::from_flat(&cf)).indefinite().flat(),
                7 => Log(Poly6::from_flat(&cf)).indefinite().flat(),
                8 => Log(Poly7::from_flat(&cf)).indefinite().flat(),
                9 => Log(Poly8::from_flat(&cf)).indefinite().flat(),
                _ => unreachable!(),
            };
            rep.runs += 1;
            let ok = got_q.len() == q.len() + 1 && got_q[0] == 0.0 && got_q[1..].iter().zip(q.iter()).all(|(&g, &w)| g == w as f64);
            if !ok {
                rep.violations.push(json!({"kind":"log-indefinite-exact","p_int":c,"expected_q":q,"got_k_then_q":got_q}));
            }
        }
        if rep.samples.len() < 3 && rep.nontrivial > 0 && len >= 4 {
            rep.samples.push(l.clone());
        }
    }
    // at most 50 per kind (each kind states a different property; the check keeps the kinds it owns)
    let mut seen: std::collections::HashMap<String, usize> = Default::default();
    rep.violations.retain(|v| {
        let c = seen.entry(v["kind"].as_str().unwrap_or("").to_string()).or_insert(0);
        *c += 1;
        *c <= 50
    });
    rep
}

// ===================================================================== C14 operators

fn op_event(ty: &str, op: &str, a: &[f64], b: &[f64], s: f64, r: &[f64], r2: &[f64]) -> Value {
    json!({"ev":"op","type":ty,"op":op,"a":jbs(a),"b":jbs(b),"s":jb(s),"r":jbs(r),"r2":jbs(r2)})
}

struct OpCov(std::collections::BTreeSet<String>);
impl OpCov {
    fn hit(&mut self, ty: &str, op: &str) {
        self.0.insert(format!("{ty}::{op}"));
    }
}

/// a second operand for binary operators: sometimes the first one itself, its negation, or the first one with
/// every number moved by at most one ulp (results of 0 or of one ulp: "close enough, call it zero" shortcuts)
fn second_operand<T: Form>(rng: &mut Rng, a: &[f64]) -> Vec<f64> {
    match rng.below(10) {
        0 => a.to_vec(),
        1 => a.iter().map(|x| -x).collect(),
        2 | 3 => a.iter().map(|&x| match rng.below(3) { 0 => x.next_up(), 1 => x.next_down(), _ => x }).collect(),
        _ => flat_of::<T>(rng),
    }
}

fn flat_of<T: Form>(rng: &mut Rng) -> Vec<f64> {
    let n = T::arity().unwrap_or_else(|| rng.below(7) as usize);
    match rng.below(14) {
        // the zero function and constant vectors: "nothing to do for a zero operand" shortcuts live here
        0 => vec![0.0; n],
        1 => vec![if rng.bool() { 0.0 } else { -0.0 }; n],
        2 => vec![rng.nice(); n],
        _ => coeffs(rng, n),
    }
}

/// Mul, MulAssign, Neg, Add, Translate on a fixed-degree polynomial type
macro_rules! ops_poly {
    ($T:ty, $rng:expr, $sink:expr, $cov:expr) => {{
        let ty = <$T as Form>::name();
        let a = flat_of::<$T>($rng);
        let b = second_operand::<$T>($rng, &a);
        let s = scalar($rng);
        let pa = <$T>::from_flat(&a);
        let pb = <$T>::from_flat(&b);
        let r = (pa.clone() * s).flat();
        let mut m = pa.clone();
        m *= s;
        $sink.ev(op_event(&ty, "mul", &a, &[], s, &r, &m.flat()));
        $cov.hit(&ty, "mul");
        $cov.hit(&ty, "mul_assign");
        $sink.ev(op_event(&ty, "neg", &a, &[], 0.0, &(-pa.clone()).flat(), &[]));
        $cov.hit(&ty, "neg");
        $sink.ev(op_event(&ty, "add", &a, &b, 0.0, &(pa.clone() + pb).flat(), &[]));
        $cov.hit(&ty, "add");
        let mut t = pa.clone();
        t.translate(s);
        $sink.ev(op_event(&ty, "translate", &a, &[], s, &t.flat(), &[]));
        $cov.hit(&ty, "translate");
    }};
}

/// Mul, MulAssign, Translate on Log<P>
macro_rules! ops_log {
    ($P:ty, $rng:expr, $sink:expr, $cov:expr) => {{
        type T = Log<$P>;
        let ty = <T as Form>::name();
        let a = flat_of::<T>($rng);
        let s = scalar($rng);
        let pa = T::from_flat(&a);
        let r = (pa.clone() * s).flat();
        let mut m = pa.clone();
        m *= s;
        $sink.ev(op_event(&ty, "mul", &a, &[], s, &r, &m.flat()));
        $cov.hit(&ty, "mul");
        $cov.hit(&ty, "mul_assign");
        let mut t = pa.clone();
        t.translate(s);
        $sink.ev(op_event(&ty, "translate", &a, &[], s, &t.flat(), &[]));
        $cov.hit(&ty, "translate");
    }};
}

/// Add, Mul, MulAssign, Neg, Translate on IntOfLog<P>
macro_rules! ops_intoflog {
    ($P:ty, $rng:expr, $sink:expr, $cov:expr) => {{
        type T = IntOfLog<$P>;
        let ty = <T as Form>::name();
        let a = flat_of::<T>($rng);
        let b = second_operand::<T>($rng, &a);
        let s = scalar($rng);
        let pa = T::from_flat(&a);
        let pb = T::from_flat(&b);
        let r = (pa.clone() * s).flat();
        let mut m = pa.clone();
        m *= s;
        $sink.ev(op_event(&ty, "mul", &a, &[], s, &r, &m.flat()));
        $cov.hit(&ty, "mul");
        $cov.hit(&ty, "mul_assign");
        $sink.ev(op_event(&ty, "neg", &a, &[], 0.0, &(-pa.clone()).flat(), &[]));
        $cov.hit(&ty, "neg");
        $sink.ev(op_event(&ty, "add", &a, &b, 0.0, &(pa.clone() + pb).flat(), &[]));
        $cov.hit(&ty, "add");
        let mut t = pa.clone();
        t.translate(s);
        $sink.ev(op_event(&ty, "translate", &a, &[], s, &t.flat(), &[]));
        $cov.hit(&ty, "translate");
    }};
}

pub fn drive_ops(seed: u64, rounds: usize, sink: &mut Sink) -> usize {
    let mut rng = Rng::new(seed);
    let mut cov = OpCov(Default::default());
    for _ in 0..rounds {
        let rng = &mut rng;
        ops_poly!(Poly0, rng, sink, cov);
        ops_poly!(Poly1, rng, sink, cov);
        ops_poly!(Poly2, rng, sink, cov);
        ops_poly!(Poly3, rng, sink, cov);
        ops_poly!(Poly4, rng, sink, cov);
        ops_poly!(Poly5, rng, sink, cov);
        ops_poly!(Poly6, rng, sink, cov);
        ops_poly!(Poly7, rng, sink, cov);
        ops_poly!(Poly8, rng, sink, cov);
        ops_log!(Poly0, rng, sink, cov);
        ops_log!(Poly1, rng, sink, cov);
        ops_log!(Poly2, rng, sink, cov);
        ops_log!(Poly3, rng, sink, cov);
        ops_log!(Poly4, rng, sink, cov);
        ops_log!(Poly5, rng, sink, cov);
        ops_log!(Poly6, rng, sink, cov);
        ops_log!(Poly7, rng, sink, cov);
        ops_log!(Poly8, rng, sink, cov);
        ops_intoflog!(Poly0, rng, sink, cov);
        ops_intoflog!(Poly1, rng, sink, cov);
        ops_intoflog!(Poly2, rng, sink, cov);
        ops_intoflog!(Poly3, rng, sink, cov);
        ops_intoflog!(Poly4, rng, sink, cov);
        ops_intoflog!(Poly5, rng, sink, cov);
        ops_intoflog!(Poly6, rng, sink, cov);
        ops_intoflog!(Poly7, rng, sink, cov);
        ops_intoflog!(Poly8, rng, sink, cov);
        // PolyN: translate, empty and non-empty; also through Log
        {
            let n = if rng.below(3) == 0 { 0 } else { 1 + rng.below(6) as usize };
            let a = coeffs(rng, n);
            let s = scalar(rng);
            let mut t = PolyN(a.clone());
            t.translate(s);
            sink.ev(op_event("PolyN", "translate", &a, &[], s, &t.0, &[]));
            cov.hit("PolyN", if n == 0 { "translate(empty)" } else { "translate" });
            let mut t = Log(PolyN(a.clone()));
            t.translate(s);
            sink.ev(op_event("Log<PolyN>", "translate", &a, &[], s, &(t.0).0, &[]));
            cov.hit("Log<PolyN>", if n == 0 { "translate(empty)" } else { "translate" });
        }
        // IntOfLogPoly4: Add, &Add, Neg, Mul, Sub, &Sub, Translate
        {
            let ty = "IntOfLogPoly4";
            let a = flat_of::<IntOfLogPoly4>(rng);
            let b = second_operand::<IntOfLogPoly4>(rng, &a);
            let s = scalar(rng);
            let pa = IntOfLogPoly4::from_flat(&a);
            let pb = IntOfLogPoly4::from_flat(&b);
            sink.ev(op_event(ty, "add", &a, &b, 0.0, &(pa + pb).flat(), &[]));
            cov.hit(ty, "add");
            sink.ev(op_event("&IntOfLogPoly4", "add", &a, &b, 0.0, &(&pa + &pb).flat(), &[]));
            cov.hit(ty, "&add");
            sink.ev(op_event(ty, "sub", &a, &b, 0.0, &(pa - pb).flat(), &[]));
            cov.hit(ty, "sub");
            sink.ev(op_event("&IntOfLogPoly4", "sub", &a, &b, 0.0, &(&pa - &pb).flat(), &[]));
            cov.hit(ty, "&sub");
            sink.ev(op_event(ty, "neg", &a, &[], 0.0, &(-pa).flat(), &[]));
            cov.hit(ty, "neg");
            sink.ev(op_event(ty, "mul", &a, &[], s, &(pa * s).flat(), &[]));
            cov.hit(ty, "mul");
            let mut t = pa;
            t.translate(s);
            sink.ev(op_event(ty, "translate", &a, &[], s, &t.flat(), &[]));
            cov.hit(ty, "translate");
        }
    }
    cov.0.len()
}

// ===================================================================== C08 derivative

pub fn drive_deriv(seed: u64, rounds: usize, sink: &mut Sink) -> usize {
    let mut rng = Rng::new(seed);
    let mut nontrivial = 0;
    for _ in 0..rounds {
        for len in 1..=9usize {
            let mut a = coeffs(&mut rng, len);
            if rng.below(4) == 0 {
                // the ends of the range: subnormal, smallest normal, its neighbours, largest values whose products still fit,
                // values whose products overflow (out of the clause's scope, but no panic), signed zeros
                for v in a.iter_mut() {
                    if rng.bool() {
                        let s = if rng.bool() { 1.0 } else { -1.0 };
                        *v = s * match rng.below(8) {
                            0 => f64::from_bits(1 + rng.below(1 << 52)),
                            1 => f64::from_bits(1 + rng.below(16)),
                            2 => f64::MIN_POSITIVE,
                            3 => f64::MIN_POSITIVE * (1.0 + rng.unit()),
                            4 => f64::MAX / 8.0 * rng.unit(),
                            5 => f64::MAX / 8.0,
                            6 => f64::MAX * rng.unit(),
                            _ => 0.0,
                        };
                    }
                }
            }
            let r: Vec<f64> = crate::with_poly_type!(len, T, { T::from_flat(&a).derivative().flat() });
            sink.ev(json!({"ev":"deriv","type":format!("Poly{}", len - 1),"a":jbs(&a),"r":jbs(&r)}));
            if len > 2 {
                nontrivial += 1;
            }
        }
    }
    nontrivial
}

// ===================================================================== C07 integration

pub fn knot_x(rng: &mut Rng) -> f64 {
    match rng.below(9) {
        0 => 0.0,
        1 => -0.0,
        // the thin region between zero and machine epsilon (thresholds like `x.abs() < EPSILON` live here)
        6 => rng.float_exp(-80, -53),
        7 => f64::from_bits(1 + rng.below(1 << 52)) * if rng.bool() { 1.0 } else { -1.0 },
        8 => rng.float_exp(-54, -50),
        2 => rng.nice(),
        3 => rng.float_exp(-30, -5),
        4 => rng.float_exp(3, 12),
        _ => rng.float_exp(-3, 3),
    }
}

fn integ_event(c: &[f64], knot: Knot, pa: f64, pb: f64, via_segment: bool, sink: &mut Sink) {
    let len = c.len();
    // via the polynomial's own integral() and via Segment::integral (used by piecewise)
    let (indef, integ, dback, fa, fb): (Vec<f64>, Vec<f64>, Vec<f64>, f64, f64) = crate::with_int_poly_type!(len, T, {
        let p = T::from_flat(c);
        if via_segment {
            let s = Segment { end: 1.0, poly: p };
            let i = s.integral(knot);
            (s.indefinite().poly.flat(), i.poly.flat(), i.derivative().poly.flat(), i.evaluate(pa), i.evaluate(pb))
        } else {
            let i = p.integral(knot);
            (p.indefinite().flat(), i.flat(), i.derivative().flat(), i.evaluate(pa), i.evaluate(pb))
        }
    });
    sink.ev(json!({"ev":"integ","type":format!("{}Poly{}", if via_segment {"Segment:"} else {""}, len - 1),"c":jbs(c),
        "kx":jb(knot.x),"ky":jb(knot.y),"indef":jbs(&indef),"integ":jbs(&integ),"dback":jbs(&dback),
        "pa":jb(pa),"pb":jb(pb),"fa":jb(fa),"fb":jb(fb)}));
}

pub fn drive_integ(seed: u64, rounds: usize, sink: &mut Sink) -> usize {
    let mut rng = Rng::new(seed);
    let mut nontrivial = 0;
    for round in 0..rounds {
        for len in 1..=8usize {
            let c = coeffs(&mut rng, len);
            let knot = Knot { x: knot_x(&mut rng), y: if rng.below(4) == 0 { 0.0 } else { rng.float_exp(-10, 10) } };
            let (pa, pb) = (knot_x(&mut rng), knot_x(&mut rng));
            let via_segment = rng.bool();
            integ_event(&c, knot, pa, pb, via_segment, sink);
            nontrivial += 1;
        }
        if round % 3 == 0 {
            // history: a FAMILY of related calls -- truncations and extensions of one coefficient vector, through the same
            // knot abscissa, degrees in descending or shuffled order, now and then one coefficient changed: whatever a call
            // leaves behind (a memo keyed on a prefix, on the abscissa, on the degree) meets its nearest relatives next
            let base = coeffs(&mut rng, 8);
            let kx = knot_x(&mut rng);
            let mut lens: Vec<usize> = (1..=8).rev().collect();
            if rng.bool() {
                for i in (1..lens.len()).rev() {
                    let j = rng.below(i as u64 + 1) as usize;
                    lens.swap(i, j);
                }
            }
            let via_segment = rng.bool();
            for len in lens {
                let mut c = base[..len].to_vec();
                if rng.below(4) == 0 {
                    let j = rng.below(len as u64) as usize;
                    c[j] += 1.0;
                }
                let knot = Knot { x: kx, y: rng.float_exp(-3, 3) };
                integ_event(&c, knot, knot_x(&mut rng), knot_x(&mut rng), via_segment, sink);
                nontrivial += 1;
            }
        }
    }
    nontrivial
}

// ===================================================================== C15 / C08 piecewise operations

fn pw_event<T: Form + Copy, R: Form + Copy>(op: &str, p: &Piecewise<T>, s: f64, r: &Piecewise<R>, alone: &[Vec<f64>]) -> Value {
    json!({"ev":"pwop","type":format!("Piecewise<{}>", T::name()),"op":op,
        "ends":jbs(&ends_of(p)),"pieces":p.segments.iter().map(|x| jbs(&x.poly.flat())).collect::<Vec<_>>(),"s":jb(s),
        "rends":jbs(&ends_of(r)),"rpieces":r.segments.iter().map(|x| jbs(&x.poly.flat())).collect::<Vec<_>>(),
        "alone":alone.iter().map(|v| jbs(v)).collect::<Vec<_>>()})
}

fn random_pw<T: Form + Copy>(rng: &mut Rng) -> Piecewise<T> {
    let n = if rng.below(20) == 0 { rng.long_len() } else { 1 + rng.size(5, 12, 4) as usize };
    let ends = crate::order::random_ends(rng, n);
    Piecewise { segments: ends.iter().map(|&e| Segment { end: e, poly: T::from_flat(&flat_of::<T>(rng)) }).collect() }
}

/// a scalar for translate/scale that includes the tiny ones (a shift below epsilon still shifts)
fn pw_scalar(rng: &mut Rng) -> f64 {
    match rng.below(6) {
        0 => rng.float_exp(-80, -50),
        1 => 0.0,
        _ => scalar(rng),
    }
}

macro_rules! pw_mul {
    ($T:ty, $rng:expr, $sink:expr, $cov:expr) => {{
        let mut p: Piecewise<$T> = random_pw($rng);
        let s = if $rng.below(4) == 0 { *$rng.pick(&[2.0, -1.0, 0.5, 1.0]) } else { pw_scalar($rng) };
        if $rng.below(4) == 0 {
            // neighbours related through the scalar: p[i+1] = p[i] * s (also equal pieces for s = 1, mirrored for s = -1)
            for i in 1..p.segments.len() {
                p.segments[i].poly = p.segments[i - 1].poly * s;
            }
        }
        let alone: Vec<Vec<f64>> = p.segments.iter().map(|x| (x.poly * s).flat()).collect();
        let r = p.clone() * s;
        $sink.ev(pw_event("mul", &p, s, &r, &alone));
        if $rng.below(2) == 0 {
            // history: the same object edited in place, the operation again (nothing may be remembered from before)
            crate::order::edit_in_place($rng, &mut p, true);
            let alone: Vec<Vec<f64>> = p.segments.iter().map(|x| (x.poly * s).flat()).collect();
            drop(r);
            let r = p.clone() * s;
            $sink.ev(pw_event("mul", &p, s, &r, &alone));
        }
        let alone: Vec<Vec<f64>> = p.segments.iter().map(|x| (x.poly * s).flat()).collect();
        // Segment by value
        let sg = p.segments[0];
        let rs = sg * s;
        $sink.ev(pw_event("mul", &Piecewise { segments: vec![sg] }, s, &Piecewise { segments: vec![rs] }, &alone[..1]));
        $cov.hit(&<$T as Form>::name(), "pw*");
    }};
}
macro_rules! pw_mul_assign {
    ($T:ty, $rng:expr, $sink:expr, $cov:expr) => {{
        let p: Piecewise<$T> = random_pw($rng);
        let s = pw_scalar($rng);
        let alone: Vec<Vec<f64>> = p.segments.iter().map(|x| (x.poly * s).flat()).collect();
        let mut r = p.clone();
        r *= s;
        $sink.ev(pw_event("mul", &p, s, &r, &alone));
        if $rng.below(2) == 0 {
            // history: the result edited in place and scaled again in the same buffer
            crate::order::edit_in_place($rng, &mut r, true);
            let before = r.clone();
            let s2 = pw_scalar($rng);
            let alone: Vec<Vec<f64>> = before.segments.iter().map(|x| (x.poly * s2).flat()).collect();
            r *= s2;
            $sink.ev(pw_event("mul", &before, s2, &r, &alone));
        }
        // Segment: by value and through &mut Segment (two impls)
        let mut sg = p.segments[0];
        sg *= s;
        let mut sg2 = p.segments[0];
        {
            let mut rf = &mut sg2;
            rf *= s;
        }
        $sink.ev(pw_event("mul", &Piecewise { segments: vec![p.segments[0], p.segments[0]] }, s, &Piecewise { segments: vec![sg, sg2] }, &[alone[0].clone(), alone[0].clone()]));
        $cov.hit(&<$T as Form>::name(), "pw*=");
    }};
}
macro_rules! pw_neg {
    ($T:ty, $rng:expr, $sink:expr, $cov:expr) => {{
        let p: Piecewise<$T> = random_pw($rng);
        let alone: Vec<Vec<f64>> = p.segments.iter().map(|x| (-x.poly).flat()).collect();
        let r = -p.clone();
        $sink.ev(pw_event("neg", &p, 0.0, &r, &alone));
        if $rng.below(2) == 0 {
            let mut p = p;
            crate::order::edit_in_place($rng, &mut p, true);
            let alone: Vec<Vec<f64>> = p.segments.iter().map(|x| (-x.poly).flat()).collect();
            drop(r);
            let r = -p.clone();
            $sink.ev(pw_event("neg", &p, 0.0, &r, &alone));
        }
        $cov.hit(&<$T as Form>::name(), "pw-neg");
    }};
}
macro_rules! pw_translate {
    ($T:ty, $rng:expr, $sink:expr, $cov:expr) => {{
        let p: Piecewise<$T> = random_pw($rng);
        let s = pw_scalar($rng);
        let alone: Vec<Vec<f64>> = p.segments.iter().map(|x| { let mut q = x.poly; q.translate(s); q.flat() }).collect();
        let mut r = p.clone();
        r.translate(s);
        $sink.ev(pw_event("translate", &p, s, &r, &alone));
        if $rng.below(2) == 0 {
            crate::order::edit_in_place($rng, &mut r, true);
            let before = r.clone();
            let s2 = pw_scalar($rng);
            let alone: Vec<Vec<f64>> = before.segments.iter().map(|x| { let mut q = x.poly; q.translate(s2); q.flat() }).collect();
            r.translate(s2);
            $sink.ev(pw_event("translate", &before, s2, &r, &alone));
        }
        let mut sg = p.segments[0];
        sg.translate(s);
        $sink.ev(pw_event("translate", &Piecewise { segments: vec![p.segments[0]] }, s, &Piecewise { segments: vec![sg] }, &alone[..1]));
        $cov.hit(&<$T as Form>::name(), "pw-translate");
    }};
}
macro_rules! pw_deriv {
    ($T:ty, $rng:expr, $sink:expr, $cov:expr) => {{
        let mut p: Piecewise<$T> = random_pw($rng);
        // neighbours that differ in the constant term only, or not at all: their derivatives coincide
        if p.segments.len() >= 2 && $rng.below(2) == 0 {
            let i = $rng.below(p.segments.len() as u64 - 1) as usize;
            let mut q = p.segments[i].poly;
            if $rng.bool() { q.translate(1.5); }
            p.segments[i + 1].poly = q;
        }
        let alone: Vec<Vec<f64>> = p.segments.iter().map(|x| x.poly.derivative().flat()).collect();
        let r = p.derivative();
        $sink.ev(pw_event("deriv", &p, 0.0, &r, &alone));
        if $rng.below(2) == 0 {
            // history: the same object edited in place, differentiated again
            crate::order::edit_in_place($rng, &mut p, true);
            let alone: Vec<Vec<f64>> = p.segments.iter().map(|x| x.poly.derivative().flat()).collect();
            let r = p.derivative();
            $sink.ev(pw_event("deriv", &p, 0.0, &r, &alone));
        }
        let alone: Vec<Vec<f64>> = p.segments.iter().map(|x| x.poly.derivative().flat()).collect();
        let sg = p.segments[0];
        $sink.ev(pw_event("deriv", &Piecewise { segments: vec![sg] }, 0.0, &Piecewise { segments: vec![sg.derivative()] }, &alone[..1]));
        $cov.hit(&<$T as Form>::name(), "pw-deriv");
    }};
}

/// which = "scalar": scale / negate / translate (C15); "deriv": derivative (the piecewise half of C08)
pub fn drive_pwops(seed: u64, rounds: usize, which: &str, sink: &mut Sink) -> usize {
    let mut rng = Rng::new(seed);
    let mut cov = OpCov(Default::default());
    for round in 0..rounds {
        let rng = &mut rng;
        if round == 0 {
            // one function far beyond any plausible block / parallel-split size, with an awkward piece count
            let n = 8193 + rng.below(3) as usize;
            let p: Piecewise<Poly1> = Piecewise {
                segments: (0..n).map(|i| Segment { end: i as f64 * 0.5, poly: Poly1([(i % 7) as f64 - 3.0, 1.0 + (i % 3) as f64]) }).collect(),
            };
            if which == "deriv" {
                let alone: Vec<Vec<f64>> = p.segments.iter().map(|x| x.poly.derivative().flat()).collect();
                sink.ev(pw_event("deriv", &p, 0.0, &p.derivative(), &alone));
            } else {
                let s = 3.0;
                let alone: Vec<Vec<f64>> = p.segments.iter().map(|x| (x.poly * s).flat()).collect();
                sink.ev(pw_event("mul", &p, s, &(p.clone() * s), &alone));
                let mut q = p.clone();
                q *= s;
                sink.ev(pw_event("mul", &p, s, &q, &alone));
                let alone: Vec<Vec<f64>> = p.segments.iter().map(|x| (-x.poly).flat()).collect();
                sink.ev(pw_event("neg", &p, 0.0, &(-p.clone()), &alone));
                let alone: Vec<Vec<f64>> = p.segments.iter().map(|x| { let mut t = x.poly; t.translate(s); t.flat() }).collect();
                let mut q = p.clone();
                q.translate(s);
                sink.ev(pw_event("translate", &p, s, &q, &alone));
            }
        }
        if which == "deriv" {
            pw_deriv!(Poly0, rng, sink, cov);
            pw_deriv!(Poly1, rng, sink, cov);
            pw_deriv!(Poly2, rng, sink, cov);
            pw_deriv!(Poly3, rng, sink, cov);
            pw_deriv!(Poly4, rng, sink, cov);
            pw_deriv!(Poly5, rng, sink, cov);
            pw_deriv!(Poly6, rng, sink, cov);
            pw_deriv!(Poly7, rng, sink, cov);
            pw_deriv!(Poly8, rng, sink, cov);
            continue;
        }
        pw_mul!(Poly1, rng, sink, cov);
        pw_mul!(Poly3, rng, sink, cov);
        pw_mul!(Poly8, rng, sink, cov);
        pw_mul!(Log<Poly2>, rng, sink, cov);
        pw_mul!(IntOfLogPoly4, rng, sink, cov);
        pw_mul!(IntOfLog<Poly2>, rng, sink, cov);
        pw_mul_assign!(Poly0, rng, sink, cov);
        pw_mul_assign!(Poly3, rng, sink, cov);
        pw_mul_assign!(Log<Poly5>, rng, sink, cov);
        pw_mul_assign!(IntOfLog<Poly1>, rng, sink, cov);
        pw_neg!(Poly2, rng, sink, cov);
        pw_neg!(Poly7, rng, sink, cov);
        pw_neg!(IntOfLogPoly4, rng, sink, cov);
        pw_neg!(IntOfLog<Poly3>, rng, sink, cov);
        pw_translate!(Poly0, rng, sink, cov);
        pw_translate!(Poly4, rng, sink, cov);
        pw_translate!(Log<Poly1>, rng, sink, cov);
        pw_translate!(IntOfLogPoly4, rng, sink, cov);
        pw_translate!(IntOfLog<Poly6>, rng, sink, cov);
    }
    cov.0.len()
}

// ===================================================================== C09 log-polynomial integrals

/// positive evaluation points / knot abscissae for log forms
pub fn pos_point(rng: &mut Rng) -> f64 {
    match rng.below(14) {
        12 | 13 => {
            let d = rng.float_exp(-52, -1).abs();
            if rng.bool() { 1.0 + d } else { 1.0 - d }
        }
        0 => 1.0,
        1 => 2.0,
        2 => 0.5,
        3 => {
            let mut v = 1.0f64;
            for _ in 0..rng.below(64) {
                v = v.next_up();
            }
            v
        }
        4 => {
            let mut v = 1.0f64;
            for _ in 0..rng.below(64) {
                v = v.next_down();
            }
            v
        }
        5 => 1e-3 * (1.0 + rng.unit()),
        6 => 1e3 * (1.0 + rng.unit()),
        7 => rng.float_exp(-70, -40).abs(),
        8 => rng.float_exp(-300, -100).abs(),
        9 => rng.float_exp(10, 60).abs(),
        _ => rng.float_exp(-4, 4).abs(),
    }
}

macro_rules! logint_case {
    ($P:ty, $c:expr, $knot:expr, $a:expr, $b:expr) => {{
        let f = Log(<$P>::from_flat($c));
        let integ = f.integral($knot);
        let indef = f.indefinite();
        disturb($a);
        let fa = integ.evaluate($a);
        disturb($b);
        let fb = integ.evaluate($b);
        disturb($knot.x);
        let fk = integ.evaluate($knot.x);
        (integ.flat(), indef.flat(), fa, fb, fk, indef.evaluate($a), indef.evaluate($b))
    }};
}

pub fn drive_logint(seed: u64, rounds: usize, sink: &mut Sink) -> usize {
    let mut rng = Rng::new(seed);
    let mut nontrivial = 0;
    for _ in 0..rounds {
        for len in 1..=9usize {
            let c: Vec<f64> = match rng.below(8) {
                0 | 1 => (0..len).map(|_| rng.nice()).collect(),
                2 | 3 => (0..len).map(|_| rng.float_exp(-4, 4)).collect(),
                4 => vec![0.0; len], // the zero function
                5 => {
                    // inverse construction: choose the *result* with exact zeros / relations and derive the input from it,
                    // in small integers so that everything is exact.  General degrees: p = q + q'.  Quartic: from (a,b,c,d,u).
                    if len == 5 {
                        let pick = |rng: &mut Rng| if rng.below(3) == 0 { 0.0 } else { rng.range(-4, 4) as f64 };
                        let (a, b, cc, d) = (pick(&mut rng), pick(&mut rng), pick(&mut rng), pick(&mut rng));
                        let u = match rng.below(4) { 0 => 0.0, 1 => 24.0 * d, 2 => -24.0 * d, _ => 24.0 * rng.range(-3, 3) as f64 };
                        vec![-a, 2.0 * b - a, b - 3.0 * cc, 4.0 * d - cc, d - u / 24.0]
                    } else {
                        let q: Vec<f64> = (0..len).map(|_| if rng.below(3) == 0 { 0.0 } else { rng.range(-5, 5) as f64 }).collect();
                        (0..len).map(|i| q[i] + if i + 1 < len { (i + 1) as f64 * q[i + 1] } else { 0.0 }).collect()
                    }
                }
                _ => coeffs(&mut rng, len),
            };
            let knot = Knot { x: pos_point(&mut rng), y: if rng.below(3) == 0 { 0.0 } else { rng.float_exp(-6, 6) } };
            let (a, b) = (pos_point(&mut rng), pos_point(&mut rng));
            let (integ, indef, fa, fb, fk, ia, ib) = match len {
                1 => logint_case!(Poly0, &c, knot, a, b),
                2 => logint_case!(Poly1, &c, knot, a, b),
                3 => logint_case!(Poly2, &c, knot, a, b),
                4 => logint_case!(Poly3, &c, knot, a, b),
                5 => logint_case!(Poly4, &c, knot, a, b),
                6 => logint_case!(Poly5, &c, knot, a, b),
                7 => logint_case!(Poly6, &c, knot, a, b),
                8 => logint_case!(Poly7, &c, knot, a, b),
                _ => logint_case!(Poly8, &c, knot, a, b),
            };
            if knot.x != 1.0 && a != 1.0 && b != 1.0 {
                nontrivial += 1;
            }
            sink.ev(json!({"ev":"logint","deg":len - 1,"p":jbs(&c),"kx":jb(knot.x),"ky":jb(knot.y),
                "integ":jbs(&integ),"indef":jbs(&indef),"a":jb(a),"b":jb(b),"fa":jb(fa),"fb":jb(fb),"fk":jb(fk),"ia":jb(ia),"ib":jb(ib)}));
        }
    }
    nontrivial
}

// ===================================================================== C10 quartic form evaluation

fn quartic_params(rng: &mut Rng) -> (f64, [f64; 4], f64) {
    match rng.below(9) {
        // exact relations between the fields (forms that `indefinite` produces for special inputs):
        // u = 24 c4 (no quartic term), u = 0, u = -24 c4, k = -u, lanes equal
        7 | 8 => {
            let c4 = if rng.bool() { rng.nice() } else { rng.float_exp(-3, 3) };
            let u = *rng.pick(&[24.0 * c4, 0.0, -24.0 * c4, c4]);
            let k = *rng.pick(&[0.0, -u, 1.0, u]);
            let c = [if rng.bool() { 0.0 } else { rng.nice() }, if rng.bool() { 0.0 } else { rng.nice() }, if rng.bool() { 0.0 } else { c4 }, c4];
            (k, c, u)
        }
        0 => {
            // unit lanes
            let mut c = [0.0; 4];
            let i = rng.below(6);
            let mut k = 0.0;
            let mut u = 0.0;
            match i {
                0 => k = 1.0,
                5 => u = 1.0,
                j => c[j as usize - 1] = 1.0,
            }
            (k, c, u)
        }
        1 => (0.0, [0.0; 4], if rng.bool() { 1.0 } else { -7.0 }),
        2 => (1.0, [1.0; 4], 1.0),
        3 => (rng.float_exp(-20, 20), [rng.float_exp(-20, 20), rng.float_exp(-20, 20), rng.float_exp(-20, 20), rng.float_exp(-20, 20)], rng.float_exp(-20, 20)),
        4 => (0.0, [rng.nice(), rng.nice(), rng.nice(), rng.nice()], rng.nice()),
        _ => (rng.float_exp(-3, 3), [rng.float_exp(-3, 3), rng.float_exp(-3, 3), rng.float_exp(-3, 3), rng.float_exp(-3, 3)], rng.float_exp(-3, 3)),
    }
}

/// v with -ln v on one side or the other of the implementation's switch point `thr`, located by
/// bisection on the implementation's own x = -ln v (the oracle does not know where the switch is)
fn near_switch(thr: f64, rng: &mut Rng) -> f64 {
    let (mut lo, mut hi) = ((-thr - 0.01).exp(), (-thr + 0.01).exp()); // -ln lo > thr > -ln hi
    for _ in 0..80 {
        let mid = lo / 2.0 + hi / 2.0;
        if mid <= lo || mid >= hi {
            break;
        }
        if -mid.ln() > thr {
            lo = mid;
        } else {
            hi = mid;
        }
    }
    let mut v = if rng.bool() { lo } else { hi };
    for _ in 0..rng.below(4096) {
        v = if rng.bool() { v.next_up() } else { v.next_down() };
    }
    v
}

/// History stratum "cold start": a short sequence of calls on a FRESH thread, so that whatever the library keeps per
/// thread starts empty and is warmed up in this order (a long-running driver thread shows each warm-up order once).
pub fn on_fresh_thread<T: Send + 'static>(f: impl FnOnce() -> T + Send + 'static) -> T {
    std::thread::spawn(f).join().expect("fresh-thread sequence (the calls inside are guarded)")
}

pub fn drive_quartic(seed: u64, n: usize, extra: &str, sink: &mut Sink) -> usize {
    let mut rng = Rng::new(seed);
    let mut nontrivial = 0;
    for it in 0..n {
        if it % 16 == 5 {
            // cold start: three arguments of different size classes (|ln v| tiny / moderate / beyond the series switch, either
            // side of 1) in a random order, on a fresh thread
            let mut vs: Vec<f64> = vec![
                1.0 + (rng.unit() - 0.5) * 2f64.powi(-(rng.below(40) as i32)),
                (-(0.2 + 1.4 * rng.unit()) * if rng.bool() { 1.0 } else { -1.0 }).exp(),
                (-(2.0 + 6.0 * rng.unit()) * if rng.bool() { 1.0 } else { -1.0 }).exp(),
            ];
            let j = rng.below(3) as usize;
            vs.swap(0, j);
            if rng.bool() {
                vs.swap(1, 2);
            }
            let ps: Vec<(f64, [f64; 4], f64)> = (0..3).map(|_| quartic_params(&mut rng)).collect();
            let (vs2, ps2) = (vs.clone(), ps.clone());
            let ys: Vec<f64> = on_fresh_thread(move || vs2.iter().zip(ps2.iter()).map(|(&v, &(k, c, u))| IntOfLogPoly4 { k, coeffs: c, u }.evaluate(v)).collect());
            for ((v, (k, c, u)), y) in vs.iter().zip(ps.iter()).zip(ys.iter()) {
                sink.ev(json!({"ev":"quartic","k":jb(*k),"c":jbs(c),"u":jb(*u),"v":jb(*v),"y":jb(*y)}));
                nontrivial += 1;
            }
        }
        let (k, c, u) = quartic_params(&mut rng);
        let v = match it % 8 {
            0 => {
                let mut v = 1.0f64;
                for _ in 0..rng.below(4097) {
                    v = v.next_up();
                }
                v
            }
            1 => {
                let mut v = 1.0f64;
                for _ in 0..rng.below(4097) {
                    v = v.next_down();
                }
                v
            }
            2 => near_switch(-1.71, &mut rng),
            3 => near_switch(1.72, &mut rng),
            4 | 5 => {
                // dense sweep of x in [-40, 40]
                let x = -40.0 + 80.0 * rng.unit();
                (-x).exp()
            }
            6 => {
                if extra == "noextreme" {
                    rng.float_exp(-200, 200).abs()
                } else {
                    *rng.pick(&[f64::from_bits(1), f64::MIN_POSITIVE, 1e-300, 1e-30, 1e30, 1e300, 2.2250738585072014e-308, 1e-310, 4e-308])
                }
            }
            _ => 1.0 + (rng.unit() - 0.5) * 2f64.powi(-(rng.below(50) as i32)),
        };
        let f = IntOfLogPoly4 { k, coeffs: c, u };
        if it % 2 == 0 {
            disturb(v);
        }
        let y = f.evaluate(v);
        if v != 1.0 {
            nontrivial += 1;
        }
        sink.ev(json!({"ev":"quartic","k":jb(k),"c":jbs(&c),"u":jb(u),"v":jb(v),"y":jb(y)}));
    }
    nontrivial
}

// ===================================================================== C11 piecewise integration

fn pad(v: &[f64], n: usize) -> Vec<f64> {
    let mut r = v.to_vec();
    r.resize(n, 0.0);
    r
}

macro_rules! pwint_exact {
    ($T:ty, $n:expr, $ends:expr, $pieces:expr, $indef:expr, $k0:expr, $out:expr, $rep:expr, $l:expr) => {{
        let pw: Piecewise<$T> = Piecewise {
            segments: $ends.iter().zip($pieces.iter()).map(|(&e, p)| Segment { end: e, poly: <$T>::from_flat(&pad(p, $n)) }).collect(),
        };
        let res = if $indef { pw.indefinite() } else { pw.integral($k0) };
        let by_ref: Vec<_> = Segment::integral_iter_ref(&pw.segments, $k0).collect();
        let by_val: Vec<_> = Segment::integral_iter(pw.segments.clone(), $k0).collect();
        $rep.runs += 1;
        let mut ok = res.segments.len() == $out.len() && by_ref == by_val;
        if !$indef {
            ok &= res.segments == by_ref;
        }
        if ok {
            for ((s, w), &e) in res.segments.iter().zip($out.iter()).zip($ends.iter()) {
                let want = pad(w, $n + 1);
                ok &= s.end.to_bits() == e.to_bits() && s.poly.flat().iter().zip(want.iter()).all(|(a, b)| a == b);
            }
        }
        if !ok {
            $rep.violations.push(json!({"kind":"pwint-exact","piece_type":<$T as Form>::name(),"case":$l,
                "got":res.segments.iter().map(|s| json!([s.end, s.poly.flat()])).collect::<Vec<_>>(),
                "iterators_equal": by_ref == by_val}));
        }
    }};
}

/// lines from MC_IntegralIter: integer ends / pieces / knot and the model's integer result.
pub fn replay_pwint(lines: &[Value], _seed: u64) -> ReplayReport {
    let mut rep = ReplayReport::default();
    for l in lines {
        rep.cases += 1;
        let ends: Vec<f64> = ivec(&l["ends"]).iter().map(|&v| v as f64).collect();
        let pieces: Vec<Vec<f64>> = l["pieces"].as_array().unwrap().iter().map(|p| ivec(p).iter().map(|&v| v as f64).collect()).collect();
        let out: Vec<Vec<f64>> = l["out"].as_array().unwrap().iter().map(|p| ivec(p).iter().map(|&v| v as f64).collect()).collect();
        let indef = l["indef"].as_bool().unwrap();
        let k0v = ivec(&l["k0"]);
        let k0 = Knot { x: k0v[0] as f64, y: k0v[1] as f64 };
        if ends.len() > 1 {
            rep.nontrivial += 1;
        }
        pwint_exact!(Poly2, 3, ends, pieces, indef, k0, out, rep, l);
        pwint_exact!(Poly5, 6, ends, pieces, indef, k0, out, rep, l);
        pwint_exact!(Poly7, 8, ends, pieces, indef, k0, out, rep, l);
        if rep.samples.len() < 3 && ends.len() >= 3 {
            rep.samples.push(l.clone());
        }
    }
    rep.violations.truncate(50);
    rep
}

fn sorted_pos_ends(rng: &mut Rng, n: usize) -> Vec<f64> {
    let mut v: Vec<f64> = match rng.below(5) {
        4 => (0..n).map(|_| rng.float_exp(-70, -40).abs()).collect(), // far below machine epsilon
        0 => (0..n).map(|_| rng.float_exp(-6, 6).abs()).collect(),
        1 => (0..n).map(|_| (1 + rng.below(6)) as f64 / 2.0).collect(), // duplicates likely
        2 => (0..n).map(|_| 1.0 + rng.unit() * 1e-3).collect(),
        _ => (0..n).map(|_| rng.float_exp(-20, 20).abs()).collect(),
    };
    v.sort_by(|a, b| a.partial_cmp(b).unwrap());
    v
}
fn sorted_any_ends(rng: &mut Rng, n: usize) -> Vec<f64> {
    let mut v: Vec<f64> = match rng.below(3) {
        0 => (0..n).map(|_| rng.float_exp(-4, 4)).collect(),
        1 => (0..n).map(|_| rng.range(-4, 4) as f64 / 2.0).collect(),
        _ => (0..n).map(|_| rng.float_exp(-12, 12)).collect(),
    };
    v.sort_by(|a, b| a.partial_cmp(b).unwrap());
    v
}

macro_rules! pwint_case {
    ($T:ty, $kind:expr, $rng:expr, $sink:expr) => {{
        let log = $kind == "log";
        let n = if !log && $rng.below(40) == 0 { $rng.long_len().min(65) } else { 1 + $rng.size(5, 12, 4) as usize };
        let mut ends = if log { sorted_pos_ends($rng, n) } else { sorted_any_ends($rng, n) };
        match $rng.below(12) {
            // the open right end written as +infinity (also as the only breakpoint), and an axis of huge abscissae: the
            // antiderivative overflows there, but nothing that needs no arithmetic may be affected
            0 | 1 => *ends.last_mut().unwrap() = f64::INFINITY,
            2 => for e in ends.iter_mut() { *e *= 1e120; },
            _ => {}
        }
        let ar = <$T as Form>::arity().unwrap();
        let mut pw: Piecewise<$T> = Piecewise {
            segments: ends.iter().map(|&e| Segment { end: e, poly: <$T>::from_flat(&(0..ar).map(|_| if $rng.bool() { $rng.nice() } else { $rng.float_exp(-3, 3) }).collect::<Vec<f64>>()) }).collect(),
        };
        // knot: at, inside, left of the first piece, or beyond it
        let e1 = if ends[0].is_finite() { ends[0] } else { 1.5 };
        let kx = match $rng.below(5) {
            0 => e1,
            1 => if log { e1 * 0.5 } else { e1 - 1.0 },
            2 => if log { e1 * (1.0 - $rng.unit() * 0.9) } else { e1 - $rng.unit() * 3.0 },
            3 => if log { e1 * 0.999 } else { e1.next_down() },
            _ => *$rng.pick(&ends) * if log { 1.5 } else { 1.0 } + if log { 0.0 } else { 0.25 },
        };
        let k0 = Knot { x: kx, y: if $rng.below(3) == 0 { 0.0 } else { $rng.float_exp(-3, 3) } };
        // the function as built, then (one in three) the SAME object edited in place and integrated again
        for round in 0..2 {
        if round == 1 {
            if $rng.below(3) != 0 {
                break;
            }
            crate::order::edit_in_place($rng, &mut pw, true);
            if pw.segments.iter().any(|s| !s.end.is_finite() || (log && !(s.end > 0.0))) {
                break;
            }
        }
        let ends: Vec<f64> = ends_of(&pw);
        if $rng.bool() {
            disturb(k0.x); // other forms evaluated at the knot abscissa just before the chain evaluates there
        }
        let res = pw.integral(k0);
        let ind = pw.indefinite();
        let by_ref: Vec<_> = Segment::integral_iter_ref(&pw.segments, k0).collect();
        let by_val: Vec<_> = Segment::integral_iter(pw.segments.clone(), k0).collect();
        let iter_eq = by_ref == by_val && by_ref == res.segments;
        // evaluation points: every breakpoint from both sides and itself, the knot, random points
        let mut ts: Vec<f64> = vec![k0.x];
        for &e in &ends {
            ts.push(e);
            ts.push(e.next_down());
            ts.push(e.next_up());
        }
        for _ in 0..4 {
            let a = *$rng.pick(&ends);
            ts.push(if log { a * (0.5 + $rng.unit()) } else { a + $rng.unit() * 2.0 - 1.0 });
        }
        if log {
            ts.retain(|t| *t > 0.0);
        }
        let fts: Vec<f64> = ts.iter().map(|&t| res.evaluate(t)).collect();
        let its: Vec<f64> = ts.iter().map(|&t| ind.evaluate(t)).collect();
        // both neighbours' values at every interior breakpoint, as the library evaluates them
        let joins: Vec<Value> = (0..res.segments.len().saturating_sub(1))
            .map(|j| json!([jb(res.segments[j].poly.evaluate(ends[j])), jb(res.segments[j + 1].poly.evaluate(ends[j]))]))
            .collect();
        $sink.ev(json!({"ev":"pwint","kind":$kind,"type":<$T as Form>::name(),
            "ends":jbs(&ends),"pieces":pw.segments.iter().map(|s| jbs(&s.poly.flat())).collect::<Vec<_>>(),
            "kx":jb(k0.x),"ky":jb(k0.y),
            "rends":jbs(&ends_of(&res)),"res":res.segments.iter().map(|s| jbs(&s.poly.flat())).collect::<Vec<_>>(),
            "iends":jbs(&ends_of(&ind)),"ind":ind.segments.iter().map(|s| jbs(&s.poly.flat())).collect::<Vec<_>>(),
            "itereq":iter_eq,"joins":joins,"ts":jbs(&ts),"fts":jbs(&fts),"its":jbs(&its)}));
        }
    }};
}

pub fn drive_pwint(seed: u64, rounds: usize, extra: &str, sink: &mut Sink) -> usize {
    let mut rng = Rng::new(seed);
    let mut n = 0;
    for _ in 0..rounds {
        let rng = &mut rng;
        if extra != "log" {
            pwint_case!(Poly0, "poly", rng, sink);
            pwint_case!(Poly1, "poly", rng, sink);
            pwint_case!(Poly2, "poly", rng, sink);
            pwint_case!(Poly3, "poly", rng, sink);
            pwint_case!(Poly4, "poly", rng, sink);
            pwint_case!(Poly5, "poly", rng, sink);
            pwint_case!(Poly6, "poly", rng, sink);
            pwint_case!(Poly7, "poly", rng, sink);
            n += 8;
        }
        if extra != "poly" {
            pwint_case!(Log<Poly0>, "log", rng, sink);
            pwint_case!(Log<Poly1>, "log", rng, sink);
            pwint_case!(Log<Poly2>, "log", rng, sink);
            pwint_case!(Log<Poly3>, "log", rng, sink);
            pwint_case!(Log<Poly4>, "log", rng, sink);
            pwint_case!(Log<Poly5>, "log", rng, sink);
            pwint_case!(Log<Poly6>, "log", rng, sink);
            pwint_case!(Log<Poly7>, "log", rng, sink);
            pwint_case!(Log<Poly8>, "log", rng, sink);
            n += 9;
        }
    }
    n
}

// ===================================================================== C04 / C05 constrained spline

fn jknots(ks: &[Knot]) -> Value {
    Value::Array(ks.iter().map(|k| json!([jb(k.x), jb(k.y)])).collect())
}

/// strictly increasing abscissae in several regimes
fn spline_xs(rng: &mut Rng, n: usize) -> Vec<f64> {
    let mut xs: Vec<f64> = Vec::with_capacity(n);
    let base = match rng.below(6) {
        0 => 0.0,
        1 => rng.float_exp(-3, 3),
        2 => 1e3 * rng.nice(),
        3 => -1e6,
        4 => 1e6 * (1.0 + rng.unit()),
        _ => rng.float_exp(-20, 20),
    };
    let tiny = rng.below(6) == 0;
    let base = if tiny { 0.0 } else { base };
    let scale = match if tiny { 9 } else { rng.below(5) } {
        // the whole abscissa axis far below machine epsilon (gaps < 2.2e-16 are ordinary gaps there)
        9 => rng.float_exp(-100, -56).abs(),
        0 => 1.0,
        1 => rng.float_exp(-30, -10).abs(),
        2 => rng.float_exp(5, 20).abs(),
        _ => rng.float_exp(-3, 3).abs(),
    };
    let mode = rng.below(4);
    let mut x = base;
    for i in 0..n {
        xs.push(x);
        let step = match mode {
            0 => scale,                                    // even
            1 => scale * 2f64.powi(i as i32),              // geometric
            2 => scale * (0.001 + rng.unit()),             // uneven
            _ => if rng.below(3) == 0 { scale * 1e-6 } else { scale }, // clustered
        };
        let nx = x + step;
        x = if nx > x { nx } else { x.next_up() };
    }
    xs
}

fn spline_ys(rng: &mut Rng, n: usize) -> Vec<f64> {
    let yscale = match rng.below(6) {
        0 => rng.float_exp(-40, -20).abs(), // tiny ordinates: secant products far below epsilon
        5 => rng.float_exp(-545, -480).abs(), // secant slopes whose product is subnormal (but not zero)
        1 => rng.float_exp(10, 30).abs(),
        _ => rng.float_exp(-3, 3).abs(),
    };
    let y0 = if rng.bool() { 0.0 } else { rng.float_exp(-2, 2) * yscale };
    let mut ys: Vec<f64> = Vec::with_capacity(n);
    let shape = rng.below(7);
    let mut y = y0;
    if rng.below(8) == 0 {
        // a plateau at level zero whose zeros carry random signs (secant slopes of +0.0 and -0.0), between two flanks
        let mut v: Vec<f64> = vec![yscale];
        for _ in 0..n.saturating_sub(2) {
            v.push(if rng.bool() { 0.0 } else { -0.0 });
        }
        v.push(if rng.bool() { yscale } else { -yscale });
        v.truncate(n);
        return v;
    }
    for i in 0..n {
        ys.push(y);
        let d = match shape {
            0 => rng.unit() + 0.01,                                  // monotone increasing
            1 => -(rng.unit() + 0.01),                               // monotone decreasing
            2 => if i % 2 == 0 { rng.unit() + 0.1 } else { -(rng.unit() + 0.1) }, // oscillating
            3 => if rng.below(3) == 0 { 0.0 } else { rng.unit() },   // plateaux inside a rise (terraces)
            4 => 1.0,                                                // collinear on an even grid; else nearly
            5 => if rng.below(4) == 0 { 0.0 } else { rng.unit() - 0.5 },
            _ => (rng.unit() - 0.3) * if rng.below(5) == 0 { 1e-9 } else { 1.0 }, // tiny secants next to large
        };
        y += d * yscale;
    }
    ys
}

pub fn drive_spline(seed: u64, n: usize, sink: &mut Sink) -> usize {
    let mut rng = Rng::new(seed);
    let mut nontrivial = 0;
    for it in 0..n {
        let len = if it % 40 == 39 { rng.long_len() } else { 3 + rng.size(6, 10, 4) as usize };
        let xs = spline_xs(&mut rng, len);
        let mut ys = spline_ys(&mut rng, len);
        if it % 7 == 0 {
            // exactly collinear, or collinear plus a few ulps
            let (a, b) = (rng.nice(), rng.nice());
            for (y, &x) in ys.iter_mut().zip(xs.iter()) {
                *y = a * x + b;
                if it % 14 == 0 && rng.bool() {
                    *y = y.next_up();
                }
            }
        }
        let ks: Vec<Knot> = xs.iter().zip(ys.iter()).map(|(&x, &y)| Knot { x, y }).collect();
        // history: (one input in three) a prefix first, or the whole input and then a prefix: a scratch buffer or an
        // incremental scheme that outlives the call shows up in the second of the two
        let mut runs: Vec<&[Knot]> = vec![];
        if ks.len() >= 4 && rng.below(3) == 0 {
            let m = 3 + rng.below(ks.len() as u64 - 3) as usize;
            if rng.bool() {
                runs.push(&ks[..m]);
                runs.push(&ks);
            } else {
                runs.push(&ks);
                runs.push(&ks[..m]);
            }
        } else {
            runs.push(&ks);
        }
        for ks in runs {
            let r = guarded(|| constrained_spline(ks));
            let (ends, coef, pan) = match &r {
                Ok(p) => (ends_of(p), p.segments.iter().map(|s| jbs(&s.poly.0)).collect::<Vec<_>>(), false),
                Err(_) => (vec![], vec![], true),
            };
            sink.ev(json!({"ev":"spline","knots":jknots(ks),"ends":jbs(&ends),"coef":coef,"panic":pan}));
        }
        nontrivial += 1;
    }
    nontrivial
}

// ===================================================================== C06 linear

fn linear_event(ks: &[Knot], sink: &mut Sink) {
    let len = ks.len();
    let r = guarded(|| linear(ks));
    let (ends, coef, pan, ts, fts) = match &r {
        Ok(p) => {
            let ends = ends_of(p);
            let mut ts: Vec<f64> = ks.iter().map(|k| k.x).collect();
            for w in ks.windows(2) {
                ts.push(w[0].x / 2.0 + w[1].x / 2.0);
            }
            ts.push(ks[0].x - 1.0);
            ts.push(ks[len - 1].x + 1.0);
            let fts: Vec<f64> = ts.iter().map(|&t| p.evaluate(t)).collect();
            (ends, p.segments.iter().map(|s| jbs(&s.poly.0)).collect::<Vec<_>>(), false, ts, fts)
        }
        Err(_) => (vec![], vec![], true, vec![], vec![]),
    };
    sink.ev(json!({"ev":"linear","knots":jknots(ks),"ends":jbs(&ends),"coef":coef,"panic":pan,"ts":jbs(&ts),"fts":jbs(&fts)}));
}

pub fn drive_linear(seed: u64, n: usize, sink: &mut Sink) -> usize {
    let mut rng = Rng::new(seed);
    let mut nontrivial = 0;
    let eps = f64::EPSILON;
    // long inputs (beyond any plausible block size) that are sorted except for ONE descent, at every position
    for &len in &[33usize, 40, 65, 130] {
        for p in 1..len {
            if len == 130 && p % 3 != 0 && p % 32 != 0 {
                continue;
            }
            let ks: Vec<Knot> = (0..len)
                .map(|i| Knot { x: if i == p { i as f64 - 2.5 } else { i as f64 }, y: ((i * 7) % 5) as f64 })
                .collect();
            linear_event(&ks, sink);
            nontrivial += 1;
        }
    }
    for it in 0..n {
        let len = 2 + rng.size(6, 28, 5) as usize;
        let base = *rng.pick(&[0.0, 0.25, 0.5, 1.0, -1.0, 1e6, -3.0, 1e-3]);
        let mut x = base;
        let mut ks: Vec<Knot> = Vec::with_capacity(len);
        let regular = it % 3 == 0;
        for _ in 0..len {
            ks.push(Knot { x, y: match rng.below(8) { 0 | 1 => rng.nice(), 2 => 0.0, 3 => -0.0, _ => rng.float_exp(-4, 4) } });
            let gap = if regular {
                match rng.below(4) {
                    0 => eps,
                    1 => eps.next_up(),
                    2 => 2.0 * eps,
                    _ => rng.float_exp(-8, 4).abs(),
                }
            } else {
                match rng.below(10) {
                    0 => 0.0,
                    1 => eps / 2.0,
                    2 => eps.next_down(),
                    3 => eps,
                    4 => eps.next_up(),
                    5 => 0.6 * eps,
                    6 => -rng.float_exp(-3, 3).abs(), // out of order
                    7 => 2.0 * eps,
                    _ => rng.float_exp(-8, 4).abs(),
                }
            };
            x += gap;
        }
        if ks.len() >= 3 && rng.below(3) == 0 {
            // history: a prefix of the input first, then the input (an incremental implementation would resume), and
            // occasionally the longer input first and then its prefix
            let m = 2 + rng.below(ks.len() as u64 - 2) as usize;
            if rng.below(4) == 0 {
                linear_event(&ks, sink);
            }
            linear_event(&ks[..m], sink);
        }
        let r = guarded(|| linear(&ks));
        let (ends, coef, pan, ts, fts) = match &r {
            Ok(p) => {
                let ends = ends_of(p);
                let mut ts: Vec<f64> = ks.iter().map(|k| k.x).collect();
                for w in ks.windows(2) {
                    ts.push(w[0].x / 2.0 + w[1].x / 2.0);
                }
                ts.push(ks[0].x - 1.0);
                ts.push(ks[len - 1].x + 1.0);
                let fts: Vec<f64> = ts.iter().map(|&t| p.evaluate(t)).collect();
                (ends, p.segments.iter().map(|s| jbs(&s.poly.0)).collect::<Vec<_>>(), false, ts, fts)
            }
            Err(_) => (vec![], vec![], true, vec![], vec![]),
        };
        if !regular {
            nontrivial += 1;
        }
        sink.ev(json!({"ev":"linear","knots":jknots(&ks),"ends":jbs(&ends),"coef":coef,"panic":pan,"ts":jbs(&ts),"fts":jbs(&fts)}));
    }
    nontrivial
}

// ===================================================================== C17 approximate equality

use approx::{AbsDiffEq, RelativeEq};

fn approx_event<T>(ty: &str, a: &T, b: &T, fa: &[f64], fb: &[f64], sa: &[usize], sb: &[usize], eps: f64, rel: f64) -> Value
where
    T: AbsDiffEq<Epsilon = f64> + RelativeEq,
{
    approx_event_ordered(ty, a, b, fa, fb, sa, sb, eps, rel, false)
}

/// The four relations asked in the usual order, or (history chains) in the reverse one, so that the first question
/// after an in-place edit is the very question asked last before it.
fn approx_event_ordered<T>(ty: &str, a: &T, b: &T, fa: &[f64], fb: &[f64], sa: &[usize], sb: &[usize], eps: f64, rel: f64, rev: bool) -> Value
where
    T: AbsDiffEq<Epsilon = f64> + RelativeEq,
{
    let (abs_ab, abs_ba, rel_ab, rel_ba);
    if rev {
        rel_ba = b.relative_eq(a, eps, rel);
        rel_ab = a.relative_eq(b, eps, rel);
        abs_ba = b.abs_diff_eq(a, eps);
        abs_ab = a.abs_diff_eq(b, eps);
    } else {
        abs_ab = a.abs_diff_eq(b, eps);
        abs_ba = b.abs_diff_eq(a, eps);
        rel_ab = a.relative_eq(b, eps, rel);
        rel_ba = b.relative_eq(a, eps, rel);
    }
    json!({"ev":"approx","type":ty,"sa":sa,"a":jbs(fa),"sb":sb,"b":jbs(fb),"eps":jb(eps),"rel":jb(rel),
        "abs_ab":abs_ab,"abs_ba":abs_ba,"rel_ab":rel_ab,"rel_ba":rel_ba})
}

// (epsilon, max_relative): equal, absolute-dominated, relative-dominated (max_relative > epsilon: the two must not be
// interchangeable anywhere), one of them zero
const TOLS: [(f64, f64); 8] = [(0.0, 0.0), (f64::EPSILON, f64::EPSILON), (1e-6, 1e-9), (10.0, 0.5), (1e-3, 0.0), (1e-9, 1e-3), (0.0, 0.25), (1e-12, 1e-6)];

/// all the pairs for one value of a fixed-shape type: itself, and every single position perturbed
fn approx_single<T>(ty: &str, mk: &dyn Fn(&[f64]) -> T, base: &[f64], shape: &[usize], rng: &mut Rng, sink: &mut Sink) -> usize
where
    T: AbsDiffEq<Epsilon = f64> + RelativeEq,
{
    let a = mk(base);
    let mut n = 0;
    for &(eps, rel) in &TOLS {
        sink.ev(approx_event(ty, &a, &a, base, base, shape, shape, eps, rel));
        // every position for short values; first, last and a sample of positions for long ones
        let positions: Vec<usize> = if base.len() <= 40 {
            (0..base.len()).collect()
        } else {
            let mut v = vec![0, 1, base.len() - 2, base.len() - 1, base.len() / 2];
            for _ in 0..6 {
                v.push(rng.below(base.len() as u64) as usize);
            }
            v
        };
        for p in positions {
            // differences just below and just above every threshold a (possibly wrong) rule could use: epsilon,
            // max_relative * |x|, and the two with the parameters or the scaling confused (max_relative alone,
            // epsilon * |x|); then far beyond all of them
            let x = base[p];
            let scale = if eps > 0.0 { eps } else { x.abs().max(1e-300) * f64::EPSILON };
            let mut deltas = vec![scale / 2.0, 2.0 * scale + x.abs() * 4.0 * rel, -(1.0 + rng.unit()) * (scale * 4.0 + x.abs() * (4.0 * rel + 1e-3))];
            for t in [rel * x.abs(), rel, eps * x.abs()] {
                if t > 0.0 && t.is_finite() && t != eps {
                    deltas.push(if rng.bool() { 0.6 * t } else { -0.6 * t });
                    deltas.push(if rng.bool() { 1.7 * t } else { -1.7 * t });
                }
            }
            for d in deltas {
                let mut fb = base.to_vec();
                fb[p] += d;
                let b = mk(&fb);
                sink.ev(approx_event(ty, &a, &b, base, &fb, shape, shape, eps, rel));
                n += 1;
            }
        }
    }
    n
}

macro_rules! approx_form {
    ($T:ty, $rng:expr, $sink:expr, $n:expr) => {{
        let base = flat_of::<$T>($rng);
        let shape = [base.len()];
        $n += approx_single::<$T>(&<$T as Form>::name(), &|v| <$T>::from_flat(v), &base, &shape, $rng, $sink);
    }};
}

macro_rules! approx_pw {
    ($T:ty, $rng:expr, $sink:expr, $n:expr) => {{
        let k = if $rng.below(6) == 0 { *$rng.pick(&[31usize, 32, 33, 65]) } else { 1 + $rng.below(3) as usize };
        let ar = <$T as Form>::arity().unwrap() + 1;
        let mut base: Vec<f64> = Vec::new();
        let ends = crate::order::random_ends($rng, k);
        for e in &ends {
            base.push(if e.is_finite() { *e } else { 1.0 });
            base.extend(flat_of::<$T>($rng));
        }
        let shape: Vec<usize> = vec![ar; k];
        let ty = format!("Piecewise<{}>", <$T as Form>::name());
        $n += approx_single::<Piecewise<$T>>(&ty, &|v| pw_from_flat::<$T>(v), &base, &shape, $rng, $sink);
        // Segment alone
        let sty = format!("Segment<{}>", <$T as Form>::name());
        $n += approx_single::<Segment<$T>>(&sty, &|v| Segment::<$T>::from_flat(v), &base[..ar], &[ar], $rng, $sink);
        // history: ONE pair of objects; between two comparisons one number of one of them is changed IN PLACE (a
        // coefficient, an interior or an outer breakpoint; far beyond every tolerance, or back to equality), and the
        // question asked last before the edit is asked first after it
        {
            let a = pw_from_flat::<$T>(&base);
            let mut b = a.clone();
            let flatten = |p: &Piecewise<$T>| -> Vec<f64> { p.segments.iter().flat_map(|s| std::iter::once(s.end).chain(s.poly.flat())).collect() };
            let (eps, rel) = *$rng.pick(&TOLS);
            for step in 0..5 {
                if step > 0 {
                    let i = $rng.below(k as u64) as usize;
                    if step == 3 {
                        b = a.clone(); // equal again (a fresh buffer this once)
                    } else if $rng.below(3) == 0 {
                        b.segments[i].end = a.segments[i].end + 1.0 + 2.0 * a.segments[i].end.abs();
                    } else if step == 4 {
                        b.segments[i] = a.segments[i]; // back to equality in place
                    } else {
                        let mut f = b.segments[i].poly.flat();
                        let j = $rng.below(f.len() as u64) as usize;
                        f[j] += 1.0 + 100.0 * eps + 2.0 * f[j].abs();
                        b.segments[i].poly = <$T>::from_flat(&f);
                    }
                }
                let fb = flatten(&b);
                $sink.ev(approx_event_ordered(&ty, &a, &b, &base, &fb, &shape, &shape, eps, rel, step % 2 == 1));
                $n += 1;
            }
        }
        // different numbers of pieces: a prefix, the empty function, one piece more
        let a = pw_from_flat::<$T>(&base);
        let mut longer = base.clone();
        longer.extend_from_slice(&base[base.len() - ar..]);
        let shape_l: Vec<usize> = vec![ar; k + 1];
        let b = pw_from_flat::<$T>(&longer);
        let empty: Piecewise<$T> = Piecewise { segments: vec![] };
        for &(eps, rel) in &TOLS {
            $sink.ev(approx_event(&ty, &a, &b, &base, &longer, &shape, &shape_l, eps, rel));
            $sink.ev(approx_event(&ty, &empty, &a, &[], &base, &[], &shape, eps, rel));
            $sink.ev(approx_event(&ty, &empty, &empty, &[], &[], &[], &[], eps, rel));
            $n += 2;
        }
    }};
}

pub fn drive_approx(seed: u64, rounds: usize, sink: &mut Sink) -> usize {
    let mut rng = Rng::new(seed);
    let mut n = 0usize;
    for _ in 0..rounds {
        let rng = &mut rng;
        approx_form!(Poly0, rng, sink, n);
        approx_form!(Poly1, rng, sink, n);
        approx_form!(Poly2, rng, sink, n);
        approx_form!(Poly3, rng, sink, n);
        approx_form!(Poly4, rng, sink, n);
        approx_form!(Poly5, rng, sink, n);
        approx_form!(Poly6, rng, sink, n);
        approx_form!(Poly7, rng, sink, n);
        approx_form!(Poly8, rng, sink, n);
        approx_form!(PolyN, rng, sink, n);
        approx_form!(Log<Poly0>, rng, sink, n);
        approx_form!(Log<Poly3>, rng, sink, n);
        approx_form!(Log<Poly8>, rng, sink, n);
        approx_form!(IntOfLog<Poly0>, rng, sink, n);
        approx_form!(IntOfLog<Poly2>, rng, sink, n);
        approx_form!(IntOfLog<Poly7>, rng, sink, n);
        approx_form!(IntOfLogPoly4, rng, sink, n);
        approx_pw!(Poly1, rng, sink, n);
        approx_pw!(Poly3, rng, sink, n);
        approx_pw!(Log<Poly2>, rng, sink, n);
        approx_pw!(IntOfLog<Poly1>, rng, sink, n);
        approx_pw!(IntOfLogPoly4, rng, sink, n);
        // PolyN of different lengths
        {
            let a = coeffs(rng, 3);
            let mut b = a.clone();
            b.push(0.0);
            for &(eps, rel) in &TOLS {
                sink.ev(approx_event("PolyN", &PolyN(a.clone()), &PolyN(b.clone()), &a, &b, &[3], &[4], eps, rel));
                sink.ev(approx_event("PolyN", &PolyN(vec![]), &PolyN(vec![]), &[], &[], &[0], &[0], eps, rel));
                n += 1;
            }
        }
    }
    n
}

// ===================================================================== C18 serialization round trips

use serde::{de::DeserializeOwned, Serialize};

/// non-NaN contents: random bits, subnormals, -0.0, extremes, infinities
pub fn serde_number(rng: &mut Rng, finite_only: bool) -> f64 {
    loop {
        let x = match rng.below(12) {
            0 => -0.0,
            1 => 0.0,
            2 => f64::from_bits(1 + rng.below((1 << 52) - 1)),
            3 => -f64::from_bits(1 + rng.below((1 << 52) - 1)),
            4 => *rng.pick(&[f64::MAX, -f64::MAX, f64::MIN_POSITIVE, -f64::MIN_POSITIVE]),
            5 => if finite_only { 1.0 } else { *rng.pick(&[f64::INFINITY, f64::NEG_INFINITY]) },
            6 => rng.nice(),
            7 => f64::from_bits(rng.u64()),
            _ => rng.float_exp(-1022, 1023),
        };
        if !x.is_nan() && (!finite_only || x.is_finite()) {
            return x;
        }
    }
}

fn serde_event<T>(ty: &str, format: &str, shape: &[usize], v: &T, flat: &dyn Fn(&T) -> (Vec<usize>, Vec<f64>), back: Result<T, String>) -> Value
where
    T: PartialEq,
{
    let (_, a) = flat(v);
    match back {
        Ok(w) => {
            let (s2, b) = flat(&w);
            json!({"ev":"serde","type":ty,"format":format,"shape":shape,"a":jbs(&a),"ok":true,"shape2":s2,"b":jbs(&b),"eq":*v == w})
        }
        Err(m) => json!({"ev":"serde","type":ty,"format":format,"shape":shape,"a":jbs(&a),"ok":false,"shape2":[],"b":[],"eq":false,"err":m}),
    }
}

#[cfg(feature = "borsh")]
pub trait MaybeBorsh: borsh::BorshSerialize + borsh::BorshDeserialize {}
#[cfg(feature = "borsh")]
impl<T: borsh::BorshSerialize + borsh::BorshDeserialize> MaybeBorsh for T {}
#[cfg(not(feature = "borsh"))]
pub trait MaybeBorsh {}
#[cfg(not(feature = "borsh"))]
impl<T> MaybeBorsh for T {}

#[cfg(feature = "borsh")]
fn borsh_roundtrip<T: MaybeBorsh>(v: &T) -> Option<Result<T, String>> {
    Some(borsh::to_vec(v).map_err(|e| e.to_string()).and_then(|b| borsh::from_slice::<T>(&b).map_err(|e| e.to_string())))
}
#[cfg(not(feature = "borsh"))]
fn borsh_roundtrip<T: MaybeBorsh>(_v: &T) -> Option<Result<T, String>> {
    None
}

/// One round trip per (value, format), queued: the jobs of a round are run in a SHUFFLED order (history: whatever one
/// serialization leaves behind -- a per-thread mode, a scratch buffer -- meets every other type and format next).
type SerdeJob = Box<dyn FnOnce(&mut Sink)>;

fn serde_all<T, F>(ty: &str, v: &T, flat: F, jobs: &mut Vec<SerdeJob>)
where
    T: Serialize + DeserializeOwned + PartialEq + MaybeBorsh + Clone + 'static,
    F: Fn(&T) -> (Vec<usize>, Vec<f64>) + Copy + 'static,
{
    let (_, a) = flat(v);
    if a.iter().all(|x| x.is_finite()) {
        let (ty, v) = (ty.to_string(), v.clone());
        jobs.push(Box::new(move |sink: &mut Sink| {
            let (shape, _) = flat(&v);
            let r = serde_json::to_string(&v).map_err(|e| e.to_string()).and_then(|s| serde_json::from_str::<T>(&s).map_err(|e| e.to_string()));
            sink.ev(serde_event(&ty, "json", &shape, &v, &flat, r));
        }));
    }
    {
        let (ty, v) = (ty.to_string(), v.clone());
        jobs.push(Box::new(move |sink: &mut Sink| {
            let (shape, _) = flat(&v);
            let r = serde_cbor::to_vec(&v).map_err(|e| e.to_string()).and_then(|b| serde_cbor::from_slice::<T>(&b).map_err(|e| e.to_string()));
            sink.ev(serde_event(&ty, "cbor", &shape, &v, &flat, r));
        }));
    }
    {
        // a positional, non-self-describing format (vpos.rs, in the style of bincode): attributes that change the shape of
        // the stream without telling the reader only show in formats like this one
        let (ty, v) = (ty.to_string(), v.clone());
        jobs.push(Box::new(move |sink: &mut Sink| {
            let (shape, _) = flat(&v);
            let r = crate::vpos::to_bytes(&v).map_err(|e| e.to_string()).and_then(|b| crate::vpos::from_bytes::<T>(&b).map_err(|e| e.to_string()));
            sink.ev(serde_event(&ty, "positional", &shape, &v, &flat, r));
        }));
    }
    {
        let (ty, v) = (ty.to_string(), v.clone());
        jobs.push(Box::new(move |sink: &mut Sink| {
            let (shape, _) = flat(&v);
            if let Some(r) = borsh_roundtrip(&v) {
                sink.ev(serde_event(&ty, "borsh", &shape, &v, &flat, r));
            }
        }));
    }
}

macro_rules! serde_form {
    ($T:ty, $rng:expr, $jobs:expr) => {{
        let finite = $rng.bool();
        let n = <$T as Form>::arity().unwrap();
        let flatv: Vec<f64> = (0..n).map(|_| serde_number($rng, finite)).collect();
        let v = <$T>::from_flat(&flatv);
        serde_all::<$T, _>(&<$T as Form>::name(), &v, |x: &$T| (vec![x.flat().len()], x.flat()), $jobs);
        // a segment and a piecewise function of 0..n segments over it
        let sv = Segment { end: serde_number($rng, finite), poly: v };
        serde_all::<Segment<$T>, _>(&format!("Segment<{}>", <$T as Form>::name()), &sv, |x: &Segment<$T>| (vec![x.flat().len()], x.flat()), $jobs);
        let k = $rng.size(6, 20, 4) as usize;
        // breakpoints: any numbers, or (one function in three) a grid of whole numbers
        let whole = $rng.below(3) == 0;
        let pw: Piecewise<$T> = Piecewise {
            segments: (0..k)
                .map(|i| Segment {
                    end: if whole { i as f64 - 2.0 } else { serde_number($rng, finite) },
                    poly: <$T>::from_flat(&(0..n).map(|_| serde_number($rng, finite)).collect::<Vec<f64>>()),
                })
                .collect(),
        };
        serde_all::<Piecewise<$T>, _>(&format!("Piecewise<{}>", <$T as Form>::name()), &pw, move |x: &Piecewise<$T>| (vec![n + 1; x.segments.len()], pw_flat(x)), $jobs);
    }};
}

pub fn drive_serde(seed: u64, rounds: usize, sink: &mut Sink) -> usize {
    let mut rng = Rng::new(seed);
    let mut jobs: Vec<SerdeJob> = vec![];
    // two functions with more segments than any plausible pre-allocation cap or chunk size
    for &k in &[4097usize, 8200] {
        let pw: Piecewise<Poly1> = Piecewise {
            segments: (0..k).map(|i| Segment { end: i as f64, poly: Poly1([serde_number(&mut rng, true), i as f64]) }).collect(),
        };
        serde_all::<Piecewise<Poly1>, _>("Piecewise<Poly1>", &pw, |x: &Piecewise<Poly1>| (vec![3; x.segments.len()], pw_flat(x)), &mut jobs);
    }
    for j in jobs.drain(..) {
        j(sink);
    }
    for _ in 0..rounds {
        let rng = &mut rng;
        let jobs = &mut jobs;
        {
            let finite = rng.bool();
            let k = Knot { x: serde_number(rng, finite), y: serde_number(rng, finite) };
            serde_all::<Knot, _>("Knot", &k, |x: &Knot| (vec![2], vec![x.x, x.y]), jobs);
        }
        serde_form!(Poly0, rng, jobs);
        serde_form!(Poly1, rng, jobs);
        serde_form!(Poly2, rng, jobs);
        serde_form!(Poly3, rng, jobs);
        serde_form!(Poly4, rng, jobs);
        serde_form!(Poly5, rng, jobs);
        serde_form!(Poly6, rng, jobs);
        serde_form!(Poly7, rng, jobs);
        serde_form!(Poly8, rng, jobs);
        serde_form!(Log<Poly0>, rng, jobs);
        serde_form!(Log<Poly4>, rng, jobs);
        serde_form!(Log<Poly8>, rng, jobs);
        serde_form!(IntOfLog<Poly0>, rng, jobs);
        serde_form!(IntOfLog<Poly2>, rng, jobs);
        serde_form!(IntOfLog<Poly5>, rng, jobs);
        serde_form!(IntOfLog<Poly8>, rng, jobs);
        serde_form!(IntOfLogPoly4, rng, jobs);
        // Fisher-Yates with the driver's generator
        for i in (1..jobs.len()).rev() {
            let j = rng.below(i as u64 + 1) as usize;
            jobs.swap(i, j);
        }
        for j in jobs.drain(..) {
            j(sink);
        }
    }
    sink.n
}

// ===================================================================== grid cases of the models as events

/// TLC-enumerated knot sets (integers) run through the real constructions under exact power-of-two
/// scalings, logged as ordinary `spline` / `linear` events: the trace specification is the judge.
pub fn replay_events(kind: &str, lines: &[Value], sink: &mut Sink) -> usize {
    if kind == "lib" {
        return crate::session::replay_lib(lines, &[(1.0, 1.0), (0.7, 1.3)], sink);
    }
    if kind == "repo-lib" {
        // the repository's own unit tests, re-expressed as scripts (scenarios/repo_tests.ndjson)
        let scripts: Vec<Value> = lines.iter().filter(|l| l.get("ops").is_some()).cloned().collect();
        return crate::session::replay_lib(&scripts, &[(1.0, 1.0)], sink);
    }
    let mut n = 0;
    for l in lines {
        if kind == "repo-build" && l.get("build").is_none() {
            continue;
        }
        // integer grid knots (MC_Spline / MC_Linear) or, for the repository's tests, the literal float knots
        let kn: Vec<(f64, f64)> = l["knots"].as_array().unwrap().iter().map(|k| (k[0].as_f64().unwrap(), k[1].as_f64().unwrap())).collect();
        let (kind, repo) = if kind == "repo-build" { (l["build"].as_str().unwrap(), true) } else { (kind, false) };
        match kind {
            "spline" => {
                for &(a, b, off) in &[(0i32, 0i32, 0.0f64), (-20, 3, 0.0), (7, -30, 0.0), (0, 0, 1024.0), (-10, 0, -3.0)][..if repo { 1 } else { 5 }] {
                    let ks: Vec<Knot> = kn.iter().map(|&(x, y)| Knot { x: (x + off) * 2f64.powi(a), y: y * 2f64.powi(b) }).collect();
                    let r = guarded(|| constrained_spline(&ks));
                    let (ends, coef, pan) = match &r {
                        Ok(p) => (ends_of(p), p.segments.iter().map(|s| jbs(&s.poly.0)).collect::<Vec<_>>(), false),
                        Err(_) => (vec![], vec![], true),
                    };
                    sink.ev(json!({"ev":"spline","knots":jknots(&ks),"ends":jbs(&ends),"coef":coef,"panic":pan}));
                    n += 1;
                }
            }
            "linear" => {
                // grid unit = eps/2 at base 0.25 (spacing of floats there is eps/4): gaps of 1 unit are positive but
                // narrower than epsilon, gaps of 2 units are exactly epsilon; and a coarse scaling where every gap is wide
                for &(base, unit) in &[(0.0, 1.0), (0.25f64, f64::EPSILON / 2.0), (-8.0, 0.5)][..if repo { 1 } else { 3 }] {
                    let ks: Vec<Knot> = kn.iter().map(|&(x, y)| Knot { x: base + x * unit, y }).collect();
                    let r = guarded(|| linear(&ks));
                    let (ends, coef, pan, ts, fts) = match &r {
                        Ok(p) => {
                            let mut ts: Vec<f64> = ks.iter().map(|k| k.x).collect();
                            for w in ks.windows(2) {
                                ts.push(w[0].x / 2.0 + w[1].x / 2.0);
                            }
                            ts.push(ks[0].x - unit);
                            ts.push(ks[ks.len() - 1].x + unit);
                            let fts: Vec<f64> = ts.iter().map(|&t| p.evaluate(t)).collect();
                            (ends_of(p), p.segments.iter().map(|s| jbs(&s.poly.0)).collect::<Vec<_>>(), false, ts, fts)
                        }
                        Err(_) => (vec![], vec![], true, vec![], vec![]),
                    };
                    sink.ev(json!({"ev":"linear","knots":jknots(&ks),"ends":jbs(&ends),"coef":coef,"panic":pan,"ts":jbs(&ts),"fts":jbs(&fts)}));
                    n += 1;
                }
            }
            _ => panic!("unknown kind {kind}"),
        }
    }
    n
}
