//! Arithmetic properties (filled in below).
