//! Conformance harness binding the TLA+ specification in /verif/spec to the real
//! piecewise_polynomial crate (path dependency on /repo, built with
//! --cfg piecewise_polynomial_verif).
//!
//! Two directions:
//!  * spec -> impl  (`replay_*`): behaviours / vectors enumerated by TLC are run on the
//!    real types and compared with what the specification says;
//!  * impl -> spec  (`drive_*`): seeded drivers exercise the real code and log one ndjson
//!    event per public call (arguments and results as bit patterns) for TLC to validate
//!    against the trace specifications.

pub mod arith;
pub mod common;
pub mod order;
pub mod structs;
pub mod dispatch;
pub mod session;
pub mod vpos;
