pub fn hello() {}
