//! Shared plumbing: PRNG, bit-pattern JSON, float generators, probe pieces,
//! order embeddings, event sink, panic capture.

use piecewise_polynomial::*;
use serde_json::{json, Value};
use std::cell::RefCell;
use std::io::Write;

// ------------------------------------------------------------------ PRNG

/// xoshiro256** seeded through splitmix64; all randomness in the harness comes from here.
#[derive(Clone)]
pub struct Rng([u64; 4]);

impl Rng {
    pub fn new(seed: u64) -> Self {
        let mut z = seed.wrapping_add(0x9E37_79B9_7F4A_7C15);
        let mut next = || {
            z = z.wrapping_add(0x9E37_79B9_7F4A_7C15);
            let mut x = z;
            x = (x ^ (x >> 30)).wrapping_mul(0xBF58_476D_1CE4_E5B9);
            x = (x ^ (x >> 27)).wrapping_mul(0x94D0_49BB_1331_11EB);
            x ^ (x >> 31)
        };
        Rng([next(), next(), next(), next()])
    }
    pub fn u64(&mut self) -> u64 {
        let s = &mut self.0;
        let r = s[1].wrapping_mul(5).rotate_left(7).wrapping_mul(9);
        let t = s[1] << 17;
        s[2] ^= s[0];
        s[3] ^= s[1];
        s[1] ^= s[2];
        s[0] ^= s[3];
        s[2] ^= t;
        s[3] = s[3].rotate_left(45);
        r
    }
    /// uniform in 0..n (n > 0)
    pub fn below(&mut self, n: u64) -> u64 {
        self.u64() % n
    }
    /// below(big) with probability 1/odds, else below(small)
    pub fn size(&mut self, odds: u64, big: u64, small: u64) -> u64 {
        let n = if self.below(odds) == 0 { big } else { small };
        self.below(n)
    }
    /// a length next to a power of two (block / chunk sizes), 15..129
    pub fn long_len(&mut self) -> usize {
        *self.pick(&[15usize, 16, 17, 31, 32, 33, 63, 64, 65, 127, 128, 129])
    }
    pub fn range(&mut self, lo: i64, hi: i64) -> i64 {
        lo + (self.u64() % ((hi - lo + 1) as u64)) as i64
    }
    pub fn bool(&mut self) -> bool {
        self.u64() & 1 == 1
    }
    /// uniform in [0,1)
    pub fn unit(&mut self) -> f64 {
        (self.u64() >> 11) as f64 / (1u64 << 53) as f64
    }
    pub fn pick<'a, T>(&mut self, xs: &'a [T]) -> &'a T {
        &xs[self.below(xs.len() as u64) as usize]
    }
    /// random sign, random 52-bit mantissa, binary exponent uniform in [elo, ehi]
    pub fn float_exp(&mut self, elo: i32, ehi: i32) -> f64 {
        let e = self.range(elo as i64, ehi as i64) + 1023;
        let m = self.u64() & ((1u64 << 52) - 1);
        let s = self.u64() & (1 << 63);
        f64::from_bits(s | ((e as u64) << 52) | m)
    }
    /// a "nice" float: small integer / small power of two, random sign
    pub fn nice(&mut self) -> f64 {
        let n = self.range(-64, 64) as f64;
        let d = [1.0, 2.0, 4.0, 8.0, 1024.0][self.below(5) as usize];
        n / d
    }
}

// ------------------------------------------------------------------ bits <-> JSON

/// f64 bit pattern as two signed 32-bit integers [hi, lo] (TLC integers are 32-bit).
pub fn jb(x: f64) -> Value {
    let b = x.to_bits();
    json!([(b >> 32) as u32 as i32, b as u32 as i32])
}
pub fn jbits(b: u64) -> Value {
    json!([(b >> 32) as u32 as i32, b as u32 as i32])
}
pub fn jbs(xs: &[f64]) -> Value {
    Value::Array(xs.iter().map(|&x| jb(x)).collect())
}
pub fn from_jb(v: &Value) -> f64 {
    let hi = v[0].as_i64().unwrap() as i32 as u32 as u64;
    let lo = v[1].as_i64().unwrap() as i32 as u32 as u64;
    f64::from_bits((hi << 32) | lo)
}
pub fn hex(x: f64) -> String {
    format!("{:016x}", x.to_bits())
}

// ------------------------------------------------------------------ event sink

pub struct Sink {
    out: std::io::BufWriter<std::fs::File>,
    pub n: usize,
}
impl Sink {
    pub fn create(path: &str) -> Self {
        Sink { out: std::io::BufWriter::new(std::fs::File::create(path).expect("create trace")), n: 0 }
    }
    pub fn ev(&mut self, v: Value) {
        serde_json::to_writer(&mut self.out, &v).unwrap();
        self.out.write_all(b"\n").unwrap();
        self.n += 1;
    }
    pub fn finish(mut self) -> usize {
        self.out.flush().unwrap();
        self.n
    }
}

// ------------------------------------------------------------------ panic capture

/// Run f, turning a panic into data (the panic message).
pub fn guarded<T>(f: impl FnOnce() -> T) -> Result<T, String> {
    let r = std::panic::catch_unwind(std::panic::AssertUnwindSafe(f));
    r.map_err(|e| {
        if let Some(s) = e.downcast_ref::<&str>() {
            s.to_string()
        } else if let Some(s) = e.downcast_ref::<String>() {
            s.clone()
        } else {
            "panic".to_string()
        }
    })
}
/// Set when an operation under test did not return in time: the runaway thread cannot be stopped, so the caller
/// records the outcome, flushes its output and ends the process.
pub static HUNG: std::sync::atomic::AtomicBool = std::sync::atomic::AtomicBool::new(false);
pub fn hung() -> bool {
    HUNG.load(std::sync::atomic::Ordering::SeqCst)
}

/// Run f on its own thread; Err("did not return ...") if it takes longer than `ms` (a loop of the code under test
/// that no longer terminates is data, like a panic), Err(panic message) if it panics.
pub fn guarded_timeout<T: Send + 'static>(ms: u64, f: impl FnOnce() -> T + Send + 'static) -> Result<T, String> {
    let (tx, rx) = std::sync::mpsc::channel();
    std::thread::spawn(move || {
        let r = guarded(f);
        let _ = tx.send(r);
    });
    // The operations run here take microseconds; the limit only has to tell a loop that never ends from a thread that
    // was not scheduled for a while on a busy machine (250 ms of wall clock was NOT enough: with the model checker on
    // every core a correct merge once missed it, which would have been a false alarm).  So: 30 s of wall clock, or --
    // the runaway loops met so far push onto a Vec for ever -- 2 GiB of growth of the resident set, whichever is first.
    let limit = std::time::Duration::from_millis(ms.max(30_000));
    let t0 = std::time::Instant::now();
    let rss0 = resident_bytes();
    loop {
        match rx.recv_timeout(std::time::Duration::from_millis(50)) {
            Ok(r) => return r,
            Err(std::sync::mpsc::RecvTimeoutError::Disconnected) => return Err("worker thread vanished".into()),
            Err(std::sync::mpsc::RecvTimeoutError::Timeout) => {}
        }
        let grown = resident_bytes().saturating_sub(rss0);
        if t0.elapsed() >= limit || grown > (2u64 << 30) {
            HUNG.store(true, std::sync::atomic::Ordering::SeqCst);
            return Err(format!("did not return ({} ms, resident set grew by {} MiB)", t0.elapsed().as_millis(), grown >> 20));
        }
    }
}

fn resident_bytes() -> u64 {
    std::fs::read_to_string("/proc/self/statm")
        .ok()
        .and_then(|s| s.split_whitespace().nth(1).and_then(|p| p.parse::<u64>().ok()))
        .map_or(0, |pages| pages * 4096)
}

pub fn quiet_panics() {
    // VH_LOUD=1 keeps the messages (debugging the harness itself)
    if std::env::var("VH_LOUD").is_err() {
        std::panic::set_hook(Box::new(|_| {}));
    }
}

// ------------------------------------------------------------------ probe pieces

thread_local! {
    static PROBE_LOG: RefCell<Vec<(u32, u64)>> = RefCell::new(Vec::new());
}

/// A piece that records which piece was asked, with which argument bits, and returns a
/// value that identifies both.  Plugged into the generic Piecewise API.
#[derive(Clone, Copy, Debug, PartialEq)]
pub struct Probe(pub u32);

pub fn probe_value(id: u32, x: f64) -> f64 {
    f64::from_bits(x.to_bits().rotate_left(11) ^ (id as u64 + 1).wrapping_mul(0x9E37_79B9_7F4A_7C15))
}
impl Evaluate for Probe {
    fn evaluate(&self, v: f64) -> f64 {
        PROBE_LOG.with(|l| l.borrow_mut().push((self.0, v.to_bits())));
        probe_value(self.0, v)
    }
}
pub fn probe_take() -> Vec<(u32, u64)> {
    PROBE_LOG.with(|l| std::mem::take(&mut *l.borrow_mut()))
}
/// Piecewise<Probe> with pieces numbered 1.. over the given ends.
pub fn probe_pw(ends: &[f64]) -> Piecewise<Probe> {
    Piecewise {
        segments: ends.iter().enumerate().map(|(i, &e)| Segment { end: e, poly: Probe(i as u32 + 1) }).collect(),
    }
}

/// Provenance piece for + and -: which piece of f and which piece of g were combined, and how.
#[derive(Clone, Copy, Debug, PartialEq)]
pub struct Tag {
    pub a: u32,
    pub b: u32,
    pub op: u8, // 0 leaf, 1 add, 2 sub
}
impl<'a, 'b> std::ops::Add<&'b Tag> for &'a Tag {
    type Output = Tag;
    fn add(self, o: &'b Tag) -> Tag {
        Tag { a: self.a, b: o.a, op: 1 }
    }
}
impl<'a, 'b> std::ops::Sub<&'b Tag> for &'a Tag {
    type Output = Tag;
    fn sub(self, o: &'b Tag) -> Tag {
        Tag { a: self.a, b: o.a, op: 2 }
    }
}
pub fn tag_pw(ends: &[f64]) -> Piecewise<Tag> {
    Piecewise {
        segments: ends
            .iter()
            .enumerate()
            .map(|(i, &e)| Segment { end: e, poly: Tag { a: i as u32 + 1, b: 0, op: 0 } })
            .collect(),
    }
}

// ------------------------------------------------------------------ order embeddings

pub const NAN_RANK: i64 = -1000;

/// A strictly increasing map from integer ranks lo..=hi to f64 (NaN rank -> NaN).
pub struct Embedding {
    pub name: String,
    lo: i64,
    vals: Vec<f64>,
    /// when set: a zero *argument* is given this zero, whatever zero the breakpoints use
    /// (-0.0 and +0.0 are one rank: numerically equal, different bits)
    arg_zero: Option<f64>,
}
impl Embedding {
    /// value of a breakpoint of rank r
    pub fn at(&self, r: i64) -> f64 {
        if r == NAN_RANK {
            return f64::NAN;
        }
        self.vals[(r - self.lo) as usize]
    }
    /// value of an argument (query) of rank r
    pub fn arg(&self, r: i64) -> f64 {
        let v = self.at(r);
        match self.arg_zero {
            Some(z) if v == 0.0 => z,
            _ => v,
        }
    }
    fn check(self) -> Self {
        for w in self.vals.windows(2) {
            assert!(w[0] < w[1], "embedding {} not increasing", self.name);
        }
        self
    }
}

fn ulps_from(start: f64, n: usize) -> Vec<f64> {
    let mut v = Vec::with_capacity(n);
    let mut x = start;
    for _ in 0..n {
        v.push(x);
        x = x.next_up();
    }
    v
}

/// The embedding family E for ranks lo..=hi.
pub fn embeddings(lo: i64, hi: i64, seed: u64) -> Vec<Embedding> {
    let n = (hi - lo + 1) as usize;
    let mut out = Vec::new();
    out.push(Embedding { name: "identity".into(), lo, vals: (lo..=hi).map(|r| r as f64).collect(), arg_zero: None }.check());
    if lo <= 0 && hi >= 0 {
        // breakpoint +0.0 queried with -0.0
        out.push(Embedding { name: "identity(args -0)".into(), lo, vals: (lo..=hi).map(|r| r as f64).collect(), arg_zero: Some(-0.0) }.check());
    }
    for (nm, base) in [("ulps@1", 1.0f64), ("ulps@-1", -1.0), ("ulps@1e300", 1e300), ("ulps@2^-1022", f64::MIN_POSITIVE)] {
        // centre the run on the base so values straddle it (and the binade boundary)
        let mut s = base;
        for _ in 0..n / 2 {
            s = s.next_down();
        }
        out.push(Embedding { name: nm.into(), lo, vals: ulps_from(s, n), arg_zero: None }.check());
    }
    {
        // consecutive floats through -0.0: ..., -2^-1074, -0.0, 2^-1074, ...  (+0.0 never appears:
        // -0.0 == +0.0 numerically, so only one of them can sit in a strictly increasing run)
        let mut s = -0.0f64;
        for _ in 0..n / 2 {
            s = s.next_down();
        }
        out.push(Embedding { name: "ulps@0".into(), lo, vals: ulps_from(s, n), arg_zero: None }.check());
        // breakpoint -0.0 queried with +0.0
        out.push(Embedding { name: "ulps@0(args +0)".into(), lo, vals: ulps_from(s, n), arg_zero: Some(0.0) }.check());
    }
    {
        // extremes: the least rank is -inf, the greatest +inf, the rest spread over the whole range
        let mut v = Vec::with_capacity(n);
        for i in 0..n {
            let x = if i == 0 {
                f64::NEG_INFINITY
            } else if i == n - 1 {
                f64::INFINITY
            } else if i == 1 {
                -f64::MAX
            } else if i == n - 2 {
                f64::MAX
            } else {
                let t = (i as f64 - (n as f64 - 1.0) / 2.0) / n as f64;
                t * 1e308
            };
            v.push(x);
        }
        if n >= 4 {
            out.push(Embedding { name: "extremes".into(), lo, vals: v, arg_zero: None }.check());
        }
    }
    {
        let mut rng = Rng::new(seed ^ 0xE3BE_DD17);
        let mut v: Vec<f64> = Vec::new();
        while v.len() < n {
            let x = rng.float_exp(-60, 60);
            if !v.iter().any(|&y| y == x) {
                v.push(x);
            }
        }
        v.sort_by(|a, b| a.partial_cmp(b).unwrap());
        out.push(Embedding { name: "random".into(), lo, vals: v, arg_zero: None }.check());
    }
    out
}

// ------------------------------------------------------------------ misc

pub fn ends_of<T>(p: &Piecewise<T>) -> Vec<f64> {
    p.segments.iter().map(|s| s.end).collect()
}

/// Reference selection, used only to *label* interesting cases (never for a verdict).
pub fn ref_select(ends: &[f64], x: f64) -> usize {
    for (i, &e) in ends.iter().enumerate() {
        if e > x {
            return i + 1;
        }
    }
    ends.len()
}
