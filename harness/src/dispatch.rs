//! Name -> driver / replay for the arithmetic and structural properties.
use crate::common::Sink;
use crate::order::ReplayReport;
use serde_json::Value;

pub fn replay(kind: &str, _lines: &[Value], _seed: u64) -> ReplayReport {
    eprintln!("unknown replay kind {kind}");
    std::process::exit(2)
}

pub fn drive(kind: &str, _seed: u64, _n: usize, _extra: &str, _sink: &mut Sink) {
    eprintln!("unknown driver {kind}");
    std::process::exit(2)
}
