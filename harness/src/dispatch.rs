//! Name -> driver / replay for the arithmetic and structural properties.
use crate::arith::*;
use crate::common::Sink;
use crate::order::ReplayReport;
use serde_json::Value;

pub fn replay(kind: &str, lines: &[Value], seed: u64) -> ReplayReport {
    match kind {
        "poly" => replay_poly(lines, seed),
        "pwint" => replay_pwint(lines, seed),
        _ => {
            eprintln!("unknown replay kind {kind}");
            std::process::exit(2)
        }
    }
}

/// Returns the number of non-trivial cases the driver produced (its own rule).
pub fn drive(kind: &str, seed: u64, n: usize, extra: &str, sink: &mut Sink) -> usize {
    // History stratum "cold start": the drivers of the pure numeric functions run as several shards, each on a FRESH
    // thread with its own seed, so that whatever the library keeps per thread is warmed up in several different orders
    // instead of once.  (Shard 0 keeps the given seed.)
    const SHARDS: usize = 6;
    if matches!(kind, "eval" | "deriv" | "integ" | "logint" | "quartic") && n >= 8 * SHARDS {
        let mut total = 0;
        for i in 0..SHARDS {
            let share = n / SHARDS + if i < n % SHARDS { 1 } else { 0 };
            let sd = if i == 0 { seed } else { seed.wrapping_mul(1_000_003).wrapping_add(i as u64) };
            total += std::thread::scope(|sc| sc.spawn(|| drive_one(kind, sd, share, extra, &mut *sink)).join().expect("driver shard"));
        }
        return total;
    }
    drive_one(kind, seed, n, extra, sink)
}

fn drive_one(kind: &str, seed: u64, n: usize, extra: &str, sink: &mut Sink) -> usize {
    match kind {
        "eval" => drive_eval(seed, n, sink),
        "ops" => drive_ops(seed, n, sink),
        "deriv" => drive_deriv(seed, n, sink),
        "integ" => drive_integ(seed, n, sink),
        "pwops" => drive_pwops(seed, n, if extra == "deriv" { "deriv" } else { "scalar" }, sink),
        "logint" => drive_logint(seed, n, sink),
        "quartic" => drive_quartic(seed, n, extra, sink),
        "pwint" => drive_pwint(seed, n, extra, sink),
        "spline" => drive_spline(seed, n, sink),
        "linear" => drive_linear(seed, n, sink),
        "approx" => drive_approx(seed, n, sink),
        "serde" => drive_serde(seed, n, sink),
        "session" => crate::session::drive_session(seed, n, sink),
        "nopanic" => crate::session::drive_nopanic(seed, n, sink),
        "calib" => {
            drive_calib(seed, n, sink);
            0
        }
        _ => {
            eprintln!("unknown driver {kind}");
            std::process::exit(2)
        }
    }
}
