//! Name -> driver / replay for the arithmetic and structural properties.
use crate::arith::*;
use crate::common::Sink;
use crate::order::ReplayReport;
use serde_json::Value;

pub fn replay(kind: &str, lines: &[Value], seed: u64) -> ReplayReport {
    match kind {
        "poly" => replay_poly(lines, seed),
        "pwint" => replay_pwint(lines, seed),
        _ => {
            eprintln!("unknown replay kind {kind}");
            std::process::exit(2)
        }
    }
}

/// Returns the number of non-trivial cases the driver produced (its own rule).
pub fn drive(kind: &str, seed: u64, n: usize, extra: &str, sink: &mut Sink) -> usize {
    match kind {
        "eval" => drive_eval(seed, n, sink),
        "ops" => drive_ops(seed, n, sink),
        "deriv" => drive_deriv(seed, n, sink),
        "integ" => drive_integ(seed, n, sink),
        "pwops" => drive_pwops(seed, n, if extra == "deriv" { "deriv" } else { "scalar" }, sink),
        "logint" => drive_logint(seed, n, sink),
        "quartic" => drive_quartic(seed, n, extra, sink),
        "pwint" => drive_pwint(seed, n, extra, sink),
        "spline" => drive_spline(seed, n, sink),
        "linear" => drive_linear(seed, n, sink),
        "approx" => drive_approx(seed, n, sink),
        "serde" => drive_serde(seed, n, sink),
        "session" => crate::session::drive_session(seed, n, sink),
        "nopanic" => crate::session::drive_nopanic(seed, n, sink),
        "calib" => {
            drive_calib(seed, n, sink);
            0
        }
        _ => {
            eprintln!("unknown driver {kind}");
            std::process::exit(2)
        }
    }
}
