"""Per-property verification plans: which models are checked, which behaviours are replayed on the
real code, which drivers are run and which trace specification judges them.  See DESIGN.md section 3."""

TRUSTED = [
    "TLC 1.8 / SANY",
    "verifov.BigRatOverrides (BigInteger arithmetic, f64 decode/round; calibrated against hardware in every arithmetic run)",
    "harness probe pieces and catch_unwind",
    "data-independence of comparison-only code (order embeddings)",
]


def q(tier, quick, thorough):
    return quick if tier == "quick" else thorough


# ------------------------------------------------------------------------------------------------ C02
def c02(tier, seed):
    n, m = q(tier, (4, 4), (6, 6))
    return [
        {"type": "s2i", "kind": "select", "mc": {"module": "MC_Piecewise", "constants": {"N": n, "M": m}}},
        {"type": "i2s", "name": "drive select", "spec": "Trace_Select",
         "cmd": ["drive", "select", "{seed}", q(tier, 150, 1500), "{trace}"]},
        library_s2i(tier, "eval"), repo_tests("eval"), session_step(tier, "eval"),
        # direct evaluation is also logged next to every evaluator query
        {"type": "i2s", "name": "drive evaluator (direct leg)", "spec": "Trace_Evaluator", "cfg": "Trace_Evaluator_direct",
         "cmd": ["drive", "evaluator", "{seed}", q(tier, 100, 800), "{trace}"]},
    ]


# ------------------------------------------------------------------------------------------------ C03
def c03(tier, seed):
    n, m = q(tier, (4, 4), (5, 6))
    return [
        {"type": "s2i", "kind": "evaluator", "tag": "nonan", "judge": ["evaluator-panic", "evaluator-vs-direct"],
         "mc": {"module": "MC_Evaluator", "constants": {"N": n, "M": m, "WithNaN": False, "Guard": True}, "tag": "nonan"}},
        {"type": "i2s", "name": "explore (implementation fixpoint)", "spec": "Trace_Evaluator",
         "cmd": ["explore", "{seed}", q(tier, 6, 40), q(tier, 3, 4), "{trace}", "{work}/explore.json"], "report": "{work}/explore.json",
         "heap": "6g"},
        {"type": "i2s", "name": "bounded histories (hook-free)", "spec": "Trace_Evaluator",
         "cmd": ["histories", q(tier, 3, 4), q(tier, 3, 3), "{trace}"], "heap": "6g"},
        {"type": "i2s", "name": "random sessions", "spec": "Trace_Evaluator",
         "cmd": ["drive", "evaluator", "{seed}", q(tier, 600, 4000), "{trace}", "nonan"]},
        library_s2i(tier, "query"), repo_tests("query"), session_step(tier, "query"),
    ] + ([{"type": "apalache", "module": "AP_Evaluator", "inv": "Inv", "length": 6,
           "what": "<= 4 breakpoints and every query arbitrary integers, histories of <= 6 queries"},
          {"type": "apalache", "module": "AP_EvaluatorInd", "inv": "IndInv", "length": 0, "what": "base case: Init => IndInv"},
          {"type": "apalache", "module": "AP_EvaluatorInd", "init": "IndInit", "inv": "IndInv", "length": 1,
           "what": "inductive step from an arbitrary IndInv state: histories of EVERY length, <= 4 arbitrary integer breakpoints"}] if tier == "thorough" else [])


# ------------------------------------------------------------------------------------------------ C12
def c12(tier, seed):
    n, m = q(tier, (4, 4), (5, 5))
    return [
        {"type": "s2i", "kind": "evalv", "mc": {"module": "MC_EvalV", "constants": {"N": n, "M": m}}},
        {"type": "i2s", "name": "drive evalv", "spec": "Trace_EvalV",
         "cmd": ["drive", "evalv", "{seed}", q(tier, 400, 4000), "{trace}", "nonan"]},
        library_s2i(tier, "vnext"), session_step(tier, "vnext"),
    ] + ([{"type": "apalache", "module": "AP_EvalV", "inv": "Inv", "length": 6,
           "what": "<= 4 breakpoints and every fed argument arbitrary integers in any order, batches of <= 6 items: piece = Select(running maximum)"},
          {"type": "apalache", "module": "AP_EvalVInd", "inv": "IndInv", "length": 0, "what": "base case: Init => IndInv"},
          {"type": "apalache", "module": "AP_EvalVInd", "init": "IndInit", "inv": "IndInv", "length": 1,
           "what": "inductive step from an arbitrary IndInv state: batches of EVERY length, <= 4 arbitrary integer breakpoints"}] if tier == "thorough" else [])


# ------------------------------------------------------------------------------------------------ C13
def c13(tier, seed):
    n, m = q(tier, (3, 4), (4, 5))
    return [
        {"type": "s2i", "kind": "merge",
         "mc": {"module": "MC_Merge", "constants": {"N": n, "M": m, "WithNaN": False}, "liveness": "Terminates under WF(Next)"}},
        {"type": "mc", "module": "MC_Merge", "constants": {"N": 2, "M": 3, "WithNaN": True}, "tag": "nan"},
        {"type": "i2s", "name": "drive merge", "spec": "Trace_Merge",
         "cmd": ["drive", "merge", "{seed}", q(tier, 300, 3000), "{trace}"]},
        library_s2i(tier, "combine", "q"), repo_tests("combine"), session_step(tier, "combine"),
    ] + ([{"type": "apalache", "module": "AP_Merge", "inv": "Inv", "length": 6,
           "what": "operands of <= 3 pieces with arbitrary integer breakpoints, arbitrary integer argument"}] if tier == "thorough" else [])


# ------------------------------------------------------------------------------------------------ C16
def c16(tier, seed):
    n, m = q(tier, (4, 4), (5, 5))
    return [
        # the regression exhibit: the code before the fix (NaNGuard = FALSE) violates the contract in the model
        {"type": "mc", "module": "MC_Evaluator", "constants": {"N": 2, "M": 2, "WithNaN": True, "Guard": False},
         "tag": "legacy", "expect_violation": "Contract"},
        {"type": "s2i", "kind": "evaluator", "tag": "nan", "judge": ["evaluator-panic", "evaluator-vs-direct-after-nan"],
         "mc": {"module": "MC_Evaluator", "constants": {"N": n, "M": m, "WithNaN": True, "Guard": True}, "tag": "nan"}},
        {"type": "i2s", "name": "explore with NaN (implementation fixpoint)", "spec": "Trace_Evaluator", "cfg": "Trace_Evaluator_nan",
         "cmd": ["explore", "{seed}", q(tier, 4, 30), q(tier, 3, 4), "{trace}", "{work}/explore_nan.json", "nan"], "report": "{work}/explore_nan.json",
         "heap": "6g"},
        {"type": "i2s", "name": "bounded histories with NaN (hook-free)", "spec": "Trace_Evaluator", "cfg": "Trace_Evaluator_nan",
         "cmd": ["histories", q(tier, 3, 4), q(tier, 3, 3), "{trace}", "nan"], "heap": "6g"},
        {"type": "i2s", "name": "random sessions with NaN", "spec": "Trace_Evaluator", "cfg": "Trace_Evaluator_nan",
         "cmd": ["drive", "evaluator", "{seed}", q(tier, 300, 3000), "{trace}"]},
        {"type": "i2s", "name": "evaluate_v with NaN items (panic-freedom only)", "spec": "Trace_EvalV", "cfg": "Trace_EvalV_panic",
         "cmd": ["drive", "evalv", "{seed}", q(tier, 300, 3000), "{trace}"]},
        {"type": "i2s", "name": "every public operation under catch_unwind", "spec": "Trace_Panic",
         "cmd": ["drive", "nopanic", "{seed}", q(tier, 150, 3000), "{trace}"], "min_tally": [3000, 300, 0, 0]},
        {"type": "i2s", "name": "direct evaluation incl. NaN (panic-freedom only)", "spec": "Trace_Select", "cfg": "Trace_Select_panic",
         "cmd": ["drive", "select", "{seed}", q(tier, 100, 1000), "{trace}"]},
    ]


# ------------------------------------------------------------------------------------------------ C19
def c19(tier, seed):
    return [
        {"type": "s2i", "kind": "arb", "mc": {"module": "MC_Arb", "constants": {"L": q(tier, 3, 4), "K": 3}},
         "trace": {"spec": "Trace_Arb"}},
        {"type": "i2s", "name": "drive arb", "spec": "Trace_Arb",
         "cmd": ["drive", "arb", "{seed}", q(tier, 1500, 20000), "{trace}"]},
    ]


# ------------------------------------------------------------------------------------------------ C01
CALIB = {"type": "i2s", "name": "calibration of Fl/Val against the FPU", "spec": "Trace_Calib",
         "cmd": ["drive", "calib", "{seed}", 2000, "{trace}"]}


def c01(tier, seed):
    return [
        {"type": "s2i", "kind": "poly", "judge": ["poly-exact", "log-at-1"],
         "mc": {"module": "MC_PolyAlgebra", "constants": {"MaxLen": 9, "MaxNZ": q(tier, 2, 3)}, "workers": 1, "timeout": 3400}},
        CALIB,
        {"type": "i2s", "name": "drive eval", "spec": "Trace_Eval", "cmd": ["drive", "eval", "{seed}", q(tier, 6000, 30000), "{trace}"],
         "min_tally": [1000, 100, 300, 0]},
    ] + ([{"type": "i2s", "name": "drive eval shard %d" % k, "spec": "Trace_Eval",
           "cmd": ["drive", "eval", str(seed * 1000 + k), 30000, "{trace}"], "min_tally": [1000, 100, 300, 0]} for k in range(1, 12)] if tier == "thorough" else [])


MC_ALG = {"type": "mc", "module": "MC_PolyAlgebra", "constants": {"MaxLen": 9, "MaxNZ": 2}, "workers": 1, "timeout": 3400}


TLAPS = {"type": "tlaps", "module": "Recurrences"}


def c07(tier, seed):
    return [dict(MC_ALG), CALIB, TLAPS,
            {"type": "i2s", "name": "drive integ", "spec": "Trace_Ops", "cmd": ["drive", "integ", "{seed}", q(tier, 400, 6000), "{trace}"],
             "min_tally": [0, 0, 1000, 0]}]


def c08(tier, seed):
    return [{"type": "s2i", "kind": "poly", "judge": ["derivative-exact"],
             "mc": {"module": "MC_PolyAlgebra", "constants": {"MaxLen": 9, "MaxNZ": q(tier, 2, 3)}, "workers": 1, "timeout": 3400}},
            CALIB,
            {"type": "i2s", "name": "drive deriv", "spec": "Trace_Ops", "cmd": ["drive", "deriv", "{seed}", q(tier, 400, 6000), "{trace}"],
             "min_tally": [0, 1000, 0, 0]},
            {"type": "i2s", "name": "drive pwops (piecewise derivative)", "spec": "Trace_Ops", "cmd": ["drive", "pwops", "{seed}", q(tier, 60, 600), "{trace}", "deriv"],
             "min_tally": [0, 0, 0, 500]},
            library_s2i(tier, "derive"), repo_tests("derive"), session_step(tier, "derive")]


def c14(tier, seed):
    return [dict(MC_ALG), CALIB,
            {"type": "i2s", "name": "drive ops", "spec": "Trace_Ops", "cmd": ["drive", "ops", "{seed}", q(tier, 60, 1000), "{trace}"],
             "min_tally": [3000, 0, 0, 0], "min_nontrivial": 128}]


def c15(tier, seed):
    return [dict(MC_ALG), CALIB,
            library_s2i(tier, "scalar"), repo_tests("scalar"), library_s2i(tier, "scalar", "q")] + \
           ([{"type": "mc", "module": "MC_Library", "constants": {"N": 2, "Depth": 5, "Kind": '"poly"'}, "workers": 12, "heap": "12g", "timeout": 3400}] if tier == "thorough" else []) + [
            session_step(tier, "scalar"),
            {"type": "i2s", "name": "drive pwops", "spec": "Trace_Ops", "cmd": ["drive", "pwops", "{seed}", q(tier, 60, 1000), "{trace}"],
             "min_tally": [0, 0, 0, 1000], "min_nontrivial": 19}]


def c09(tier, seed):
    return [{"type": "s2i", "kind": "poly", "judge": ["log-indefinite-exact"],
             "mc": {"module": "MC_PolyAlgebra", "constants": {"MaxLen": 9, "MaxNZ": q(tier, 2, 3)}, "workers": 1, "timeout": 3400}},
            CALIB, TLAPS,
            {"type": "i2s", "name": "drive logint", "spec": "Trace_Log", "cmd": ["drive", "logint", "{seed}", q(tier, 120, 1500), "{trace}"],
             "min_tally": [500, 300, 0, 0]}] + \
           ([{"type": "i2s", "name": "drive logint shard %d" % k, "spec": "Trace_Log",
              "cmd": ["drive", "logint", str(seed * 1000 + k), 1500, "{trace}"], "min_tally": [500, 300, 0, 0]} for k in range(1, 8)] if tier == "thorough" else [])


def c10(tier, seed):
    return [CALIB,
            {"type": "mc", "module": "MC_RealFns", "constants": {}, "workers": 2},
            {"type": "i2s", "name": "drive quartic", "spec": "Trace_Log", "cmd": ["drive", "quartic", "{seed}", q(tier, 4000, 20000), "{trace}"],
             "min_tally": [0, 0, 2000, 500]}] + \
           ([{"type": "i2s", "name": "drive quartic shard %d" % k, "spec": "Trace_Log",
              "cmd": ["drive", "quartic", str(seed * 1000 + k), 20000, "{trace}"], "min_tally": [0, 0, 2000, 500]} for k in range(1, 14)] if tier == "thorough" else [])


def c11(tier, seed):
    n, m = q(tier, (3, 3), (4, 4))
    steps = [
        {"type": "s2i", "kind": "pwint", "mc": {"module": "MC_IntegralIter", "constants": {"N": n, "M": m}, "workers": 4, "heap": "8g"}},
        CALIB,
        {"type": "i2s", "name": "drive pwint poly", "spec": "Trace_PwInt", "cmd": ["drive", "pwint", "{seed}", q(tier, 25, 300), "{trace}", "poly"],
         "min_tally": [90, 40, 60, 0]},
        {"type": "i2s", "name": "drive pwint log", "spec": "Trace_PwInt", "cmd": ["drive", "pwint", "{seed}", q(tier, 6, 40), "{trace}", "log"],
         "min_tally": [25, 10, 15, 25]},
        library_s2i(tier, "integrate"), repo_tests("integrate"), session_step(tier, "integrate"),
    ]
    if tier == "thorough":
        steps += [{"type": "i2s", "name": "drive pwint log shard %d" % k, "spec": "Trace_PwInt",
                   "cmd": ["drive", "pwint", str(seed * 1000 + k), 40, "{trace}", "log"], "min_tally": [25, 10, 15, 25]} for k in range(1, 10)]
    return steps


def spline_steps(tier, seed, which):
    k, x, y = q(tier, (4, 4, 3), (5, 5, 3))
    steps = [
        {"type": "s2i", "kind": "spline", "via": "events", "trace": {"spec": "Trace_Build"},
         "mc": {"module": "MC_Spline", "constants": {"K": k, "X": x, "Y": y, "Off": 0}, "workers": 1, "tag": "origin"}},
        {"type": "mc", "module": "MC_Spline", "constants": {"K": 4, "X": 3, "Y": 2, "Off": 100}, "workers": 2, "tag": "offset"},
        CALIB,
        repo_tests("build"),
        {"type": "i2s", "name": "drive spline", "spec": "Trace_Build", "cmd": ["drive", "spline", "{seed}", q(tier, 1500, 6000), "{trace}"],
         "min_tally": [1000, 300, 0, 0]},
    ]
    if tier == "thorough":
        steps += [{"type": "i2s", "name": "drive spline shard %d" % j, "spec": "Trace_Build",
                   "cmd": ["drive", "spline", str(seed * 1000 + j), 6000, "{trace}"], "min_tally": [1000, 300, 0, 0]} for j in range(1, 8)]
    return steps


def c04(tier, seed):
    return spline_steps(tier, seed, "C04")


def c05(tier, seed):
    return spline_steps(tier, seed, "C05")


def c06(tier, seed):
    return [
        {"type": "s2i", "kind": "linear", "via": "events", "trace": {"spec": "Trace_Build"},
         "mc": {"module": "MC_Linear", "constants": {"L": q(tier, 3, 4), "X": 4, "Y": 2}, "workers": 1}},
        CALIB,
        repo_tests("build"),
        {"type": "i2s", "name": "drive linear", "spec": "Trace_Build", "cmd": ["drive", "linear", "{seed}", q(tier, 2000, 20000), "{trace}"],
         "min_tally": [0, 0, 1500, 600]},
    ] + ([{"type": "apalache", "module": "AP_Linear", "inv": "Inv", "length": 6,
           "what": "<= 6 knots with arbitrary integer abscissae in any order: one segment per pair, every breakpoint the running maximum, breakpoints non-decreasing"}] if tier == "thorough" else [])


def c17(tier, seed):
    return [
        {"type": "mc", "module": "MC_Approx", "constants": {"MaxLen": 3, "V": 2}, "workers": 4},
        CALIB,
        {"type": "i2s", "name": "drive approx", "spec": "Trace_Approx", "cmd": ["drive", "approx", "{seed}", q(tier, 3, 40), "{trace}"],
         "min_tally": [5000, 2000, 100, 500]},
    ]


def c18(tier, seed):
    return [
        {"type": "i2s", "name": "drive serde (serde_json, serde_cbor)", "spec": "Trace_Serde", "cmd": ["drive", "serde", "{seed}", q(tier, 60, 600), "{trace}"],
         "min_tally": [3000, 1500, 300, 0]},
        {"type": "i2s", "name": "drive serde with the borsh feature (json, cbor, borsh)", "spec": "Trace_Serde", "needs_borsh": True,
         "cmd": ["drive", "serde", "{seed}", q(tier, 60, 600), "{trace}"], "min_tally": [4000, 2000, 400, 1500]},
    ]


ARITH_ASSUME = [
    "libm ln within 1 ulp (glibc claims < 1 ulp)",
    "inputs whose partial terms or powers of x leave [2^-1000, 2^1000] are out of scope and skipped (counted by the tallies)",
    "trace validation samples seeded random and engineered inputs; the exact-grid replay is exhaustive on its grid only",
]

def session_step(tier, scope):
    """Whole-API sessions (state carried across calls) validated against Library.tla, judging only the clauses
    of one property (Trace_Library's Scope)."""
    return {"type": "i2s", "name": "sessions, scope " + scope, "spec": "Trace_Library", "cfg": "Trace_Library_" + scope,
            "cmd": ["drive", "session", "{seed}", q(tier, 240, 3000), "{trace}"],
            # (vacuity guards with a wide margin: at VERIF_SEED 1 the tallies are [741, 134..1086, 9, 24]; the bulk of each clause's
            #  coverage is the model's own scripts, library_s2i below)
            "min_tally": {"scalar": [300, 0, 0, 0], "derive": [300, 0, 0, 0], "integrate": [300, 0, 1, 0], "combine": [300, 0, 0, 3]}.get(scope, [0, 30, 0, 0])}


def library_s2i(tier, scope, kind="poly"):
    """Spec -> impl for the session machine: every script TLC enumerates from MC_Library (one per state of the last
    level) is run through the real code under two embeddings and logged as ordinary `lib` events; Trace_Library
    judges them with the clauses of one property (Scope)."""
    return {"type": "s2i", "kind": "lib", "tag": kind + "_" + scope, "via": "events",
            "trace": {"spec": "Trace_Library", "cfg": "Trace_Library_" + scope,
                      "min_tally": {"scalar": [5000, 0, 0, 0], "derive": [500, 0, 0, 0], "integrate": [500, 0, 100, 0], "combine": [500, 0, 0, 500]}.get(scope, [0, 3000 if scope == "eval" else 500, 0, 0])},
            "mc": {"module": "MC_Library", "constants": {"N": 2, "Depth": q(tier, 3, 4), "Kind": '"%s"' % kind}, "workers": q(tier, 4, 8), "heap": q(tier, "4g", "12g"),
                   "tag": kind + "_" + scope, "timeout": 3400}}


def repo_tests(scope):
    """The repository's own 94 unit tests re-expressed as scripts (inputs only; scenarios/repo_tests.ndjson, written by
    bin/gen_scenarios), run through the real code and judged by the specification under one property's scope."""
    if scope == "build":
        return {"type": "scenario", "file": "repo_tests.ndjson", "kind": "repo-build", "tag": "build", "trace": {"spec": "Trace_Build"}}
    return {"type": "scenario", "file": "repo_tests.ndjson", "kind": "repo-lib", "tag": scope,
            "trace": {"spec": "Trace_Library", "cfg": "Trace_Library_" + scope}}


ORDER_ASSUME = [
    "exhaustive part bounded by the stated N (segments) and M (distinct breakpoint ranks); transferred to f64 by data-independence and checked under the embedding family",
    "trace validation is sampling over seeded random inputs",
]

PLANS = {
    "C17": {"claim": "The lifting of the scalar relations to (shape, numbers) is a TLA+ module; its stated consequences (reflexive, symmetric, implied by equality, monotone in the tolerance, falsified by any single perturbation beyond the tolerance, never across shapes) are model-checked on small integer shapes; on real executions every implementing type (PolyN, Poly0..8, Log, IntOfLog, IntOfLogPoly4, Segment, Piecewise) is compared with itself, with every single position (coefficient, k, u, breakpoint) perturbed below and above five tolerance pairs, and across different piece counts / lengths; TLC recomputes both relations number by number with the approx crate's scalar rule over rounded f64 operations and both argument orders must agree with it.",
            "steps": c17, "level": "model_checking", "rule": "tallies = [events judged, expected-false with equal shapes, shape mismatches, expected-true with a # b]",
            "assumptions": ["finite numbers and tolerances only", "the scalar rule is transcribed from approx 0.5.1"]},
    "C18": {"claim": "Round trips of every serializable type (Knot, Poly0..8, Log, IntOfLog, IntOfLogPoly4, Segment, Piecewise with 0..20 segments) through serde_json (finite contents), serde_cbor (all non-NaN contents), a positional non-self-describing binary format of the harness's own (vpos.rs, bincode-style) and, in a second build with the dependency's borsh feature, borsh; contents drawn from -0.0, subnormals, +-MAX, +-MIN_POSITIVE, infinities and random bits; TLC compares the flattened bit patterns and shapes before and after. There is no state space here: the specification contributes the flattening discipline and the acceptance rule only.",
            "steps": c18, "level": "exploration", "technique": "TLA+ trace validation of recorded round trips (no model checking: the property has no state space)",
            "rule": "distinct_nontrivial = round trips whose contents include a special number (tally 12); tallies = [round trips, with special numbers, with >= 2 segments, borsh]",
            "assumptions": ["serde_json built with float_roundtrip (its default float parser is not bit-exact, which is a property of that crate, not of the library)"]},
    "C04": {"claim": "Kruger's construction is transcribed formula by formula into Spline.tla; over exact rationals TLC checks on every knot set of a grid (monotone, oscillating, plateaued, collinear; also offset 100 from the origin) that each cubic interpolates both knots with exactly the prescribed slopes (harmonic mean / zero / end rule) and that it is monotone (exact minimum of the derivative quadratic from end values and vertex) and stays inside the knot ordinates (Bernstein hull), flat at extrema, linear on collinear data -- with zero tolerance. On real executions TLC recomputes the exact Kruger slopes of the float knots and judges the returned coefficients: interpolation, end slopes, C1, monotonicity (exact quadratic minimum, no sampling of x), no overshoot (Bernstein control values), within KAPPA=64 * 2^-53 * the magnitudes of the construction's intermediate terms.", "steps": c04, "parallel": 8,
            "rule": "tallies = [spline events in scope, of which with an interior extremum or plateau]", "assumptions": ARITH_ASSUME + ["KAPPA = 64 (measured worst case 2.2)"]},
    "C05": {"claim": "Kruger's construction is transcribed formula by formula into Spline.tla; over exact rationals TLC checks on every knot set of a grid (monotone, oscillating, plateaued, collinear; also offset 100 from the origin) that each cubic interpolates both knots with exactly the prescribed slopes (harmonic mean / zero / end rule) and that it is monotone (exact minimum of the derivative quadratic from end values and vertex) and stays inside the knot ordinates (Bernstein hull), flat at extrema, linear on collinear data -- with zero tolerance. On real executions TLC recomputes the exact Kruger slopes of the float knots and judges the returned coefficients: interpolation, end slopes, C1, monotonicity (exact quadratic minimum, no sampling of x), no overshoot (Bernstein control values), within KAPPA=64 * 2^-53 * the magnitudes of the construction's intermediate terms.", "steps": c05, "parallel": 8,
            "rule": "tallies = [spline events in scope, of which with an interior extremum or plateau]", "assumptions": ARITH_ASSUME + ["KAPPA = 64 (measured worst case 2.2)"]},
    "C06": {"claim": "linear() is a TLA+ fold machine (running-maximum abscissa forcing, epsilon-threshold slope rule); over exact rationals TLC checks on every knot sequence of a grid (repeated and out-of-order abscissae, gaps below the threshold) one segment per pair, ends = running maximum, through the forced left knot, through the right knot or constant, and for regular knots the interpolant/ordinate/extrapolation clause at every half-grid point; real executions with gaps of 0, eps/2, pred(eps), eps, succ(eps), 2eps at several bases, descending runs and large offsets are judged by TLC over exact rationals (width = the rounded difference the code tests).",
            "steps": c06, "parallel": 6, "rule": "tallies = [linear events in scope, of which with a sub-epsilon or out-of-order gap]", "assumptions": ARITH_ASSUME},
    "C11": {"claim": "The knot-threading iterator is a TLA+ machine (one action per piece); over exact rationals TLC checks on every bounded well-formed list (duplicates in), piece set and knot: same shape, through the knot, continuity, piecewise antiderivative, F(t)=k0.y+integral (the integral defined independently as the sum of per-piece definite integrals over Select's partition) and the indefinite variant; all those cases are replayed bit-exactly on Piecewise<Poly2/5/7> through integral, indefinite, integral_iter and integral_iter_ref; random polynomial (degrees 0..7) and log-polynomial (degrees 0..8, incl. the quartic form) functions are judged by TLC with exact rationals and 230-bit ln/exp-tail on all those clauses, tolerances growing along the chain.",
            "steps": c11, "parallel": 8, "rule": "s2i non-trivial = more than one piece; i2s tallies = [events judged, knot in first piece's domain, >= 2 pieces, log events]", "assumptions": ARITH_ASSUME + ["KAPPA = 256 per chain step, times the accumulated term magnitudes"]},
    "C09": {"claim": "That the recurrences q_n=p_n, q_i=p_i-(i+1)q_{i+1} solve q+q'=p (so v q(ln v) is an antiderivative of p(ln v)) and that the quartic special form solves G-G'=p(-x) is model-checked on the coefficient grid for every degree 0..8; on real executions TLC evaluates, with 230-bit ln and exponential tail and exact rational arithmetic, (i) every number of the returned form against the exact recurrence, (ii) F(knot.x)=knot.y both through the library's evaluate and through the form's meaning, (iii) F(b)-F(a) and the same for indefinite() against the exact antiderivative (fundamental theorem, no quadrature), at points far from 1 (1e-300 .. 1e18).",
            "steps": c09, "parallel": 8, "rule": "non-trivial = knot.x, a, b all different from 1 (where ln vanishes and the existing tests live)", "assumptions": ARITH_ASSUME + ["KAPPA = 256: tolerance 256*2^-53 times the construction's own term magnitudes"]},
    "C10": {"claim": "The quartic form's value k + v sum c_j x^j + u v x^5 R(x) is evaluated by the specification with ln and R to ~230 bits (series for |x|<=8, closed form with exact big rationals beyond; functional identities of both model-checked in MC_RealFns) and the real result must lie within 1e-12 times the sum of term magnitudes: every float within 4096 ulps of 1 and of both implementation switch points (located by bisection on the implementation's own x), x in [-40,40], extreme v; v=1 must return k exactly.",
            "steps": c10, "parallel": 8, "level": "exploration",
            "technique": "TLA+ trace validation against a 230-bit specification-level oracle (one pure numeric function: no state space to model-check beyond the oracle's own identities)",
            "rule": "non-trivial = v # 1 (driver count); tallies = [-, -, quartic events judged, of which |v-1| < 2^-40]", "assumptions": ARITH_ASSUME},
    "C07": {"claim": "Deriv(Indef c)=c, i*Indef(c)[i+1]=c[i], the knot condition and F(b)-F(a)=exact integral are model-checked over exact rationals for degrees 0..7; real integral()/indefinite() results (of PolyK and of Segment<PolyK>) on random and engineered inputs incl. knot.x = +-0 are judged by TLC over exact rationals: zero constant term, every coefficient the correctly rounded c_i/(i+1), vertical shift only, value at the knot, definite integrals, and derivative-back within one ulp.",
            "steps": c07, "rule": "one event per (degree, coefficient vector, knot, two evaluation points); all in-scope events count as non-trivial", "assumptions": ARITH_ASSUME},
    "C08": {"claim": "Linearity of Deriv, Deriv(x^k)=k x^(k-1), lengths and the degree-0 case are model-checked; the integer grid is replayed bit-exactly on derivative() of Poly0..8; random float vectors are judged by TLC (1 ulp, exact for factors 1,2,4,8); Segment/Piecewise derivative keeps count, order and breakpoint bits and differentiates every piece (incl. neighbouring pieces with equal derivatives).",
            "steps": c08, "rule": "non-trivial = degree >= 2 (derivative events); piecewise events: all", "assumptions": ARITH_ASSUME},
    "C14": {"claim": "The pointwise meaning of scale/negate/add/subtract/translate is model-checked on the coefficient grid; every operator implementation that exists (128 type/operator instantiations, enforced as a coverage obligation) is run on random and special scalars and each number of each result is judged by TLC as the correctly rounded lane-wise operation; `*=` must equal `*` bit for bit; translate touches the additive constant only (empty PolyN becomes the constant).",
            "steps": c14, "rule": "distinct_nontrivial = distinct (type, operator) instantiations exercised", "assumptions": ARITH_ASSUME},
    "C15": {"claim": "Scale, *=, negate and translate on Segment (by value and through &mut) and Piecewise over polynomial, Log, IntOfLog and IntOfLogPoly4 pieces: TLC checks same count, same breakpoint bits, each piece equal to the operation applied to it alone and judged as in C14, with scalars down to 1e-24.",
            "steps": c15, "rule": "distinct_nontrivial = distinct (piece type, lifted operator) instantiations exercised", "assumptions": ARITH_ASSUME},
    "C01": {"claim": "Horner = power sum = each Estrin scheme as written in poly.rs is model-checked on a coefficient grid for degrees 0..8; the grid is replayed bit-exactly on Poly0..8, PolyN and Log at v=1 under power-of-two scalings; random, cancelling, single-lane, tiny/huge and exact-regime inputs of all forms are judged by TLC with exact rational arithmetic against the stated bound 4(n+2)2^-53 sum|c_i||x|^i (plus the propagated ulp of ln for Log) and against exactness in the exact regime.",
            "steps": c01, "parallel": 8, "rule": "non-trivial = degree >= 2 with x # 0, or any Log event; tallies in impl_to_spec[].tally = [polynomial events in scope, of which exact regime, log events in scope]",
            "assumptions": ARITH_ASSUME},
    "C02": {"claim": 'Select (first end strictly greater, else last) is model-checked with its stated consequences on every list of the bounded abstract order; every (list, argument) pair is replayed on the real Piecewise::evaluate under eight order embeddings with probe pieces (piece id and argument bits observed); random f64 lists with their ulp-neighbour alphabets are validated by TLC against the same definition.', "steps": c02, "rule": "s2i: every (list of ends, argument rank) pair of the bounded model under every embedding; non-trivial = some end exceeds the argument or the argument is beyond all ends of a multi-segment list. i2s: one event per random list with its whole query alphabet",
            "assumptions": ORDER_ASSUME},
    "C03": {"claim": "The evaluator cursor machine (Evaluator.tla) is model-checked to closure, so the contract holds for histories of unbounded length in the model; every edge of that graph is replayed on the real PiecewiseEvaluator (contract: answering piece and bits; shape: hook state); independently the implementation's own state space is explored to a fixpoint through the hook and all bounded histories are run hook-free, each transition validated by TLC.", "steps": c03, "rule": "s2i: every edge of the model's closed state graph (state reached by its shortest history, then one query) under every embedding; non-trivial = distinct (ends, cursor, last argument, query) whose query moved the cursor or went backward. i2s: implementation-state fixpoint via the hook, all bounded histories without the hook, random walks",
            "assumptions": ORDER_ASSUME},
    "C12": {"claim": 'The evaluate_v cursor machine is model-checked to closure (running-maximum invariant, laziness counters); every edge is replayed as a batch through the real lazy iterator with a pull-counting input; random batches validated by TLC.', "steps": c12, "rule": "s2i: every edge of the cursor graph fed as a whole batch; non-trivial = batches of length >= 2 or ending off the last piece", "assumptions": ORDER_ASSUME},
    "C13": {"claim": 'The merge loop is model-checked on every pair of bounded well-formed lists (index safety, termination, pointwise selection at every rank, size bound, documented panics only); every pair is replayed for + and - with provenance pieces and lane-coded IntOfLogPoly4; random f64 pairs validated by TLC at every breakpoint and its ulp neighbours.', "steps": c13, "rule": "s2i: every pair of well-formed lists of the bounded model, + and -, provenance pieces and lane-coded IntOfLogPoly4; non-trivial = pairs with more than one piece on some side", "assumptions": ORDER_ASSUME},
    "C16": {"claim": 'NaN is a first-class argument of the three evaluation machines; the pre-fix behaviour is kept as a failing model exhibit; edges with NaN queries are replayed; sessions/batches with NaN validated by TLC; every driver runs under catch_unwind and a panic is judged by the trace spec.', "steps": c16, "rule": "as C03 with NaN in the query alphabet, plus NaN items in evaluate_v batches and direct evaluation", "assumptions": ORDER_ASSUME},
    "C19": {"claim": 'The validate/sort/draw pipeline is model-checked over abstract float classes; each class list is encoded as bytes (complete, truncated at every position, without tail) and run through the real Arbitrary impl, judged by TLC together with random and mutated byte strings; accepted values are evaluated through all three paths.', "steps": c19, "rule": "s2i: every class list of the bounded model encoded as bytes, complete, truncated at every position and without tail; i2s: random and structured byte strings", "assumptions": ORDER_ASSUME},
}


def known_match(k, v):
    """Does violation v fall under known finding k?  Matching is on the specific failing input."""
    m = k.get("match", {})
    ev = v.get("event") or v.get("detail") or {}
    if "event" in m and ev.get("ev") != m["event"]:
        return False
    if "what" in m and not any(m["what"] in w for w in v.get("what", [])):
        return False
    if "predicate" in m:
        return PREDICATES[m["predicate"]](ev, v)
    return True


def _f64(b):
    import struct
    return struct.unpack(">d", struct.pack(">II", b[0] & 0xffffffff, b[1] & 0xffffffff))[0]


def quartic_overflow(ev, v):
    """F3: IntOfLogPoly4::evaluate(v) is non-finite because exp(-ln v) overflows (v < e^-709.78, i.e. all
    subnormals and v < 1.1e-308) or because |u| * exp(-ln v) overflows in `t2 * x^4`, although the true
    value and the sum of its term magnitudes are finite.  Matches only a non-finite result in that region;
    a finite wrong value there, or a non-finite one anywhere else, is still a violation."""
    import math
    if ev.get("ev") != "quartic":
        return False
    y, vv, u = _f64(ev["y"]), _f64(ev["v"]), _f64(ev["u"])
    if math.isfinite(y) or not (vv > 0):
        return False
    x = -math.log(vv)
    return x > 709.0 or (u != 0 and x + math.log(abs(u)) > 709.0)


PREDICATES = {"quartic_overflow": quartic_overflow}


def replay_steps(pid, rec, run):
    """Steps that re-run a recorded violation against the current tree."""
    v = rec["violation"]
    r = v["replay"]
    if r["mode"] == "i2s":
        origin = r["origin"]
        if "cmd" in origin:
            return [{"type": "i2s", "name": "replay", "spec": r["spec"], "cmd": origin["cmd"]}]
        raise Exception("cannot replay")
    if r["mode"] == "s2i":
        # re-run the whole replay kind at the recorded seed (cheap), through the property's own plan
        return [s for s in PLANS[pid]["steps"](rec["tier"], rec["seed"]) if s["type"] == "s2i" and s["kind"] == r["kind"]]
    raise Exception("cannot replay")
